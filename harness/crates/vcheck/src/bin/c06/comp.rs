//! C06, component layer: `WalManager` writes, `WalRecovery::recover` reads — crash images and bit flips.
//!
//! Oracle (records in, records out): recovery never panics, returns Ok, returns no record that
//! was not logged (torn / checksum-failing bytes contribute nothing), its largest single
//! allocation is bounded by the log size, and the recovered data records are those of the
//! committed transactions of SOME prefix of the logged record sequence that is no shorter
//! than what was logged before the last successful sync.

use crate::shared::seam::*;
use crate::shared::{Image, Work, image_hash};
use serde_json::{Value as J, json};
use std::path::Path;
use vcore::{Report, Tier, Violation};

pub fn size_name(s: u64) -> &'static str {
    match s {
        1 => "1-byte",
        x if x == DATA_RECORD_BYTES => "one-record",
        x if x == 2 * DATA_RECORD_BYTES => "two-records",
        _ => "default-64MiB",
    }
}
pub fn size_parse(s: &str) -> u64 {
    LOG_SIZES.iter().copied().find(|x| size_name(*x) == s).unwrap_or(LOG_SIZES[3])
}

/// allocation bound: a small multiple of the bytes on disk plus fixed buffers (BufReader = 8 KiB)
fn alloc_bound(img: &Image) -> usize {
    64 * 1024 + 16 * img.values().map(|b| b.len()).sum::<usize>()
}

pub fn eval(work: &mut Work, dur: SDur, size: u64, hist: &[SOp], run: &SeamRun, im: &CrashImage) -> Vec<Violation> {
    let mut out = vec![];
    work.set(&im.image);
    let work: &Path = &work.dir;
    let case = || {
        json!({"layer": "wal-seam", "durability": dur.name(), "max_log_size": size_name(size), "history": shist_text(hist), "image": im.how,
               "floor": im.floor, "issued": im.issued,
               "logged": run.logged.iter().map(|l| format!("{:?}@{}", l.kind, l.file_seq)).collect::<Vec<_>>(),
               "files": im.image.iter().map(|(k, v)| (k.clone(), json!(v.len()))).collect::<std::collections::BTreeMap<_, _>>()})
    };
    let sig = |layer: &str, kind: &str, opkind: &str| -> Violation {
        Violation::new(
            &[
                ("layer", layer),
                ("kind", kind),
                ("op-kind", opkind),
                ("crash-point", &im.point),
                ("file-role", im.file_role),
                ("dir-state", im.dir_state),
            ],
            case(),
            String::new(),
        )
    };
    let with = |mut v: Violation, d: String| {
        v.detail = d;
        v
    };
    let min_seq = checkpoint_seq_on_disk(work).unwrap_or(0);
    let r = crate::shared::watchdog::guard(|| case().to_string(), || recover_dir(work));
    if r.peak_alloc > alloc_bound(&im.image) {
        out.push(with(
            sig("recovery", "unbounded-allocation", "none"),
            format!(
                "WalRecovery::recover requested a single allocation of {} bytes for a WAL directory of {} bytes (length prefix trusted before validation)",
                r.peak_alloc,
                im.image.values().map(|b| b.len()).sum::<usize>()
            ),
        ));
    }
    if let Some(p) = r.panic {
        out.push(with(sig("recovery", "panic", "none"), format!("WalRecovery::recover panicked: {p}")));
        return out;
    }
    let recs = match r.result {
        Err(e) => {
            out.push(with(sig("recovery", "recover-fails", "none"), format!("WalRecovery::recover returned Err: {e}")));
            return out;
        }
        Ok(v) => v,
    };
    let issued_data = run.logged.iter().filter(|l| matches!(l.kind, RK::Data(_))).count() as u64;
    let (data, garbage) = data_numbers(&recs, issued_data);
    if !garbage.is_empty() {
        out.push(with(sig("recovery", "corrupt-record-returned", "none"), format!("recovery returned record(s) that were never logged: {garbage:?}")));
        return out;
    }
    let exp = |k: usize| expected(&run.logged, k, min_seq, Sem::Doc);
    match judge(&run.logged, im.floor, im.issued, min_seq, &data) {
        SeamVerdict::Ok => {}
        SeamVerdict::LostBeforeCheckpoint => out.push(with(
            sig("recovery", "committed-record-lost", "before-checkpoint"),
            format!(
                "recovered data records {data:?}; the committed transactions of the logged prefix contain {:?}: records logged before a Checkpoint marker and committed after it are dropped",
                exp(im.issued)
            ),
        )),
        SeamVerdict::BelowFloor { also_checkpoint_rule } => out.push(with(
            sig(if im.file_role == "older" { "wal-manager" } else { "recovery" }, "below-durable-floor", if also_checkpoint_rule { "before-checkpoint" } else { "none" }),
            format!("recovered data records {data:?}; the first {} logged records preceded the last successful sync and commit {:?}", im.floor, exp(im.floor)),
        )),
        SeamVerdict::NotAPrefix => out.push(with(
            sig("recovery", "not-a-prefix", "none"),
            format!("recovered data records {data:?} are the committed records of no prefix of the log (longest prefix: {:?}, skip below sequence {min_seq})", exp(im.issued)),
        )),
    }
    out
}

fn images_of(run: &SeamRun, hist: &[SOp], flips: Option<bool>) -> Vec<CrashImage> {
    let last = hist.len().saturating_sub(1);
    let from = if hist.len() <= 1 { 0 } else { run.instants.iter().position(|(i, _, _)| i.op_index >= last).unwrap_or(run.instants.len()) };
    let mut v = torn_images(&run.instants, from);
    if let Some(all) = flips
        && let Some((ins, _, _)) = run.instants.last()
    {
        v.extend(bit_flip_images(&ins.image, all, run.logged.len()));
    }
    v
}

/// (durability, max_log_size, history, bit flips: None / Some(all 8 bits?))
type Job = (SDur, u64, Vec<SOp>, Option<bool>);

pub fn jobs(tier: Tier) -> (Vec<Job>, J) {
    // full depth: every configuration; extra depth: the rotating configurations only, torn tails only
    let (full_depth, extra_depth, all_bits_depth, one_bit_depth) = tier.pick((3, 4, 2, 3), (5, 6, 3, 4));
    let mut jobs: Vec<Job> = vec![];
    for h in seam_histories(&SOp::ALL, extra_depth) {
        let flips = if h.len() <= all_bits_depth {
            Some(true)
        } else if h.len() <= one_bit_depth {
            Some(false)
        } else {
            None
        };
        for d in SDur::ALL {
            for s in LOG_SIZES {
                let extra_cfg = matches!(d, SDur::Sync | SDur::NoSync) && (s == 1 || s == 2 * DATA_RECORD_BYTES);
                // beyond the full depth: no Reopen / Sync letters (they add no new record shapes), rotating configurations only
                let extra_hist = !h.iter().any(|o| matches!(o, SOp::Reopen | SOp::Sync));
                if h.len() <= full_depth || (extra_cfg && extra_hist) {
                    jobs.push((d, s, h.clone(), flips));
                }
            }
        }
    }
    let b = json!({"alphabet": "d=log data record, c=TxCommit, a=TxAbort, k=checkpoint(), r=rotate(), s=sync(), o=drop+reopen manager",
        "depth_all_configurations": full_depth,
        "depth_rotating_configurations_without_s_o": extra_depth,
        "max_log_size": LOG_SIZES.iter().map(|s| size_name(*s)).collect::<Vec<_>>(),
        "durability": SDur::ALL.iter().map(|d| d.name()).collect::<Vec<_>>(),
        "bit_flips": format!("all 8 bits of every byte up to depth {all_bits_depth}, one bit per byte up to depth {one_bit_depth}")});
    (jobs, b)
}

pub fn run(tier: Tier, fast_base: &Path) -> Report {
    let mut rep = Report::new("C06", tier, "fault_enumeration");
    let (jobs, b) = jobs(tier);
    rep.set("seam_bounds", b);
    rep.set("seam_histories", json!(jobs.len()));
    let chunks: Vec<Vec<Job>> = jobs.chunks(64).map(|c| c.to_vec()).collect();
    let shards = vcore::par_map(&chunks, vcore::cores(), |ci, chunk| {
        let mut sh = Report::new("C06", tier, "fault_enumeration");
        let dir = fast_base.join(format!("seam-{ci}"));
        let mut work = Work::new(fast_base.join(format!("seam-img-{ci}")));
        for (dur, size, hist, flips) in chunk {
            let run = run_seam(&dir, *dur, *size, hist, true);
            for e in &run.errors {
                sh.violation(Violation::new(
                    &[("layer", "wal-manager"), ("kind", "manager-error")],
                    json!({"layer": "wal-seam", "durability": dur.name(), "max_log_size": size_name(*size), "history": shist_text(hist), "image": "none"}),
                    format!("a WalManager call failed: {e}"),
                ));
            }
            let imgs = images_of(&run, hist, *flips);
            for im in &imgs {
                sh.evaluations += 1;
                if im.image.values().any(|b| !b.is_empty()) {
                    sh.nontrivial_hash(vcore::hash_of(&(image_hash(&im.image), dur.name(), size, shist_text(hist))));
                }
                sh.add(if im.point.starts_with("bit-flip") { "seam_bit_flip_images" } else { "seam_torn_images" }, 1);
                sh.add(&format!("seam_point::{}", im.point), 1);
                if im.dir_state != "plain" {
                    sh.add(&format!("seam_dir_state::{}", im.dir_state), 1);
                }
                if im.file_role == "older" {
                    sh.add("seam_images_damaging_an_older_file", 1);
                }
                if im.floor > 0 {
                    sh.add("seam_images_with_durable_floor", 1);
                }
                for v in eval(&mut work, *dur, *size, hist, &run, im) {
                    sh.violation(v);
                }
            }
            if hist.len() == 4 && sh.samples.is_empty() && imgs.len() > 10 {
                sh.sample(json!({"layer": "wal-seam", "durability": dur.name(), "max_log_size": size_name(*size), "history": shist_text(hist), "images": imgs.len(), "example": imgs[imgs.len() / 2].how}));
            }
        }
        let _ = std::fs::remove_dir_all(&dir);
        sh
    });
    for sh in shards {
        rep.merge(sh);
    }
    // AdaptiveFlusher: the final flush on shutdown() / Drop must make every logged byte durable
    for explicit in [true, false] {
        for n in [1u64, 3] {
            rep.evaluations += 1;
            rep.add("flusher_shutdown_cases", 1);
            let case = json!({"layer": "flusher", "records": n, "explicit_shutdown": explicit});
            match flusher_final_flush(&fast_base.join("flusher"), n, explicit) {
                Err(e) => rep.violation(Violation::new(&[("layer", "flusher"), ("kind", "flusher-error")], case, e)),
                Ok((len, durable, syncs)) => {
                    rep.nontrivial(&("flusher", n, explicit));
                    if durable != len || len == 0 {
                        rep.violation(Violation::new(
                            &[("layer", "flusher"), ("kind", "no-final-flush"), ("shutdown", if explicit { "explicit" } else { "drop" })],
                            case,
                            format!("after AdaptiveFlusher shutdown the log holds {len} bytes but the last fsync covered {durable} ({syncs} sync event(s))"),
                        ));
                    }
                }
            }
        }
    }
    let _ = std::fs::remove_dir_all(fast_base.join("flusher"));
    rep
}

/// Rebuilds the image of a seam case.
pub fn rebuild(case: &J, base: &Path) -> Option<(SDur, u64, Vec<SOp>, SeamRun, CrashImage)> {
    let dur = SDur::parse(case["durability"].as_str()?)?;
    let size = size_parse(case["max_log_size"].as_str()?);
    let hist = shist_parse(case["history"].as_str()?);
    let how = case["image"].as_str()?;
    let run = run_seam(&base.join("replay-seam"), dur, size, &hist, true);
    let im = images_of(&run, &hist, Some(true)).into_iter().find(|i| i.how == how)?;
    Some((dur, size, hist, run, im))
}

pub fn replay(case: &J, base: &Path) -> Vec<Violation> {
    if case["layer"].as_str() == Some("flusher") {
        let (n, explicit) = (case["records"].as_u64().unwrap_or(1), case["explicit_shutdown"].as_bool().unwrap_or(true));
        return match flusher_final_flush(&base.join("flusher"), n, explicit) {
            Ok((len, durable, _)) if durable == len && len > 0 => vec![],
            other => vec![Violation::new(&[("layer", "flusher"), ("kind", "no-final-flush"), ("shutdown", if explicit { "explicit" } else { "drop" })], case.clone(), format!("{other:?}"))],
        };
    }
    match rebuild(case, base) {
        Some((dur, size, hist, run, im)) => eval(&mut Work::new(base.join("replay-seam-img")), dur, size, &hist, &run, &im),
        None => vec![],
    }
}

/// `--worker-recover <dir> <cap-bytes>`: recovery of one directory with an allocation cap, in a sacrificial process.
pub fn worker(dir: &str, cap: usize) -> i32 {
    allocprobe::CAP.store(cap, std::sync::atomic::Ordering::Relaxed);
    let r = grafeo_adapters::storage::wal::WalRecovery::new(dir).recover();
    allocprobe::CAP.store(0, std::sync::atomic::Ordering::Relaxed);
    println!("worker: recover returned {}", if r.is_ok() { "Ok" } else { "Err" });
    0
}

/// Confirms in a child process that the oversized allocation aborts the process when that much memory is not available.
pub fn confirm_abort(case: &J, base: &Path, cap: usize) -> Option<String> {
    let (_, _, _, _, im) = rebuild(case, base)?;
    let dir = base.join("abort-probe");
    materialize(&dir, &im.image);
    let exe = std::env::current_exe().ok()?;
    let out = std::process::Command::new(exe).arg("--worker-recover").arg(&dir).arg(cap.to_string()).stderr(std::process::Stdio::null()).output().ok()?;
    let _ = std::fs::remove_dir_all(&dir);
    use std::os::unix::process::ExitStatusExt;
    Some(match (out.status.code(), out.status.signal()) {
        (Some(0), _) => format!("child with a {cap}-byte allocation cap: recovery returned normally"),
        (Some(c), _) => format!("child with a {cap}-byte allocation cap: exit code {c}"),
        (None, Some(s)) => format!("child process with a {cap}-byte allocation cap (a host without that much free memory) died by signal {s} (abort: memory allocation failed)"),
        _ => "child outcome unknown".into(),
    })
}
