//! Code shared by the C05 (reopen equals close) and C06 (crash anywhere) checkers.
//!
//! * the operation alphabet over a real persistent `GrafeoDB` (`Op`, `apply_op`),
//! * the canonical, order-free graph dump (`Dump`) and its fact-level diff,
//! * durability modes as constructible through `Config`,
//! * directory images (read / write) and the H2 io-hook recorder,
//! * the `WalManager` + `WalRecovery` seam (`seam` sub-module).
#![allow(dead_code)]

use grafeo_common::types::{EdgeId, NodeId, PropertyKey, Timestamp, Value};
use grafeo_engine::{Config, DurabilityMode, GrafeoDB};
use serde_json::{Value as J, json};
use std::cell::RefCell;
use std::collections::{BTreeMap, BTreeSet};
use std::path::{Path, PathBuf};
use std::sync::Arc;

#[path = "seam.rs"]
pub mod seam;

// ---------------------------------------------------------------------------
// durability modes
// ---------------------------------------------------------------------------

#[derive(Clone, Copy, PartialEq, Eq, Debug, Hash, PartialOrd, Ord)]
pub enum Mode {
    Sync,
    /// the default `Batch { 100 ms, 1000 records }`: syncs only on elapsed wall time (observed, never predicted)
    Batch,
    /// `Batch { max_records: 1 }`: a sync after every record (deterministic)
    BatchEach,
    Adaptive,
    NoSync,
}
impl Mode {
    pub const ALL: [Mode; 5] = [Mode::Sync, Mode::Batch, Mode::BatchEach, Mode::Adaptive, Mode::NoSync];
    pub fn name(self) -> &'static str {
        match self {
            Mode::Sync => "sync",
            Mode::Batch => "batch",
            Mode::BatchEach => "batch-each-record",
            Mode::Adaptive => "adaptive",
            Mode::NoSync => "nosync",
        }
    }
    pub fn parse(s: &str) -> Option<Mode> {
        Mode::ALL.iter().copied().find(|m| m.name() == s)
    }
    pub fn durability(self) -> DurabilityMode {
        match self {
            Mode::Sync => DurabilityMode::Sync,
            Mode::Batch => DurabilityMode::default(),
            Mode::BatchEach => DurabilityMode::Batch { max_delay_ms: 3_600_000, max_records: 1 },
            Mode::Adaptive => DurabilityMode::Adaptive { target_interval_ms: 100 },
            Mode::NoSync => DurabilityMode::NoSync,
        }
    }
}

/// Opens (creating or recovering) a persistent database; `Err(text)` for `Err`, panics propagate.
pub fn open_db(dir: &Path, mode: Mode) -> Result<GrafeoDB, String> {
    GrafeoDB::with_config(Config::persistent(dir).with_wal_durability(mode.durability())).map_err(|e| e.to_string())
}

// ---------------------------------------------------------------------------
// values: one of every `Value` variant plus the awkward members
// ---------------------------------------------------------------------------

pub const NVALS: u8 = 18;
pub fn val(i: u8) -> Value {
    match i {
        0 => Value::Int64(1),
        1 => Value::String("s".into()),
        2 => Value::Null,
        3 => Value::Bool(true),
        4 => Value::Int64(i64::MIN),
        5 => Value::Float64(1.5),
        6 => Value::Float64(f64::NAN),
        7 => Value::Float64(-0.0),
        8 => Value::String("".into()),
        9 => Value::Bytes(Arc::from(vec![0u8, 255u8])),
        10 => Value::Bytes(Arc::from(Vec::<u8>::new())),
        11 => Value::Timestamp(Timestamp::from_micros(-1)),
        12 => Value::List(Arc::from(vec![Value::Int64(1), Value::String("x".into())])),
        13 => Value::List(Arc::from(Vec::<Value>::new())),
        14 => {
            let mut inner = BTreeMap::new();
            inner.insert(PropertyKey::new("b"), Value::Int64(1));
            let mut outer = BTreeMap::new();
            outer.insert(PropertyKey::new("a"), Value::Map(Arc::new(inner)));
            outer.insert(PropertyKey::new("n"), Value::Float64(f64::NAN));
            Value::Map(Arc::new(outer))
        }
        15 => Value::Vector(Arc::from(vec![1.0f32, -0.0f32, f32::INFINITY])),
        16 => Value::Vector(Arc::from(Vec::<f32>::new())),
        _ => Value::Float64(f64::NEG_INFINITY),
    }
}
pub fn val_name(i: u8) -> &'static str {
    [
        "int-1", "string-s", "null", "bool", "i64-min", "float", "nan", "neg-zero", "empty-string", "bytes", "empty-bytes", "timestamp", "list",
        "empty-list", "nested-map", "vector", "empty-vector", "neg-inf",
    ][(i as usize).min(17)]
}

/// Bit-exact canonical text of a value (floats by bit pattern, so NaN / -0.0 are distinguished).
pub fn canon(v: &Value) -> String {
    match v {
        Value::Null => "null".into(),
        Value::Bool(b) => format!("b:{b}"),
        Value::Int64(i) => format!("i:{i}"),
        Value::Float64(f) => format!("f:{:016x}", f.to_bits()),
        Value::String(s) => format!("s:{:?}", s.as_str()),
        Value::Bytes(b) => format!("y:{:?}", &b[..]),
        Value::Timestamp(t) => format!("t:{t:?}"),
        Value::List(l) => format!("l:[{}]", l.iter().map(canon).collect::<Vec<_>>().join(",")),
        Value::Map(m) => format!("m:{{{}}}", m.iter().map(|(k, v)| format!("{:?}={}", k.as_str(), canon(v))).collect::<Vec<_>>().join(",")),
        Value::Vector(x) => format!("v:[{}]", x.iter().map(|f| format!("{:08x}", f.to_bits())).collect::<Vec<_>>().join(",")),
    }
}

// ---------------------------------------------------------------------------
// canonical dump
// ---------------------------------------------------------------------------

/// The whole observable graph as a set of atomic facts (order-free by construction).
///   n|<id>                     node exists
///   l|<id>|<label>             node label
///   p|<id>|<key>|<value>       node property
///   e|<id>|<src>|<dst>|<type>  edge exists
///   q|<id>|<key>|<value>       edge property
///   t|<triple>                 RDF triple
#[derive(Clone, Debug, PartialEq, Eq, Hash, PartialOrd, Ord, Default)]
pub struct Dump {
    pub facts: BTreeSet<String>,
}

impl Dump {
    pub fn of(db: &GrafeoDB) -> Dump {
        let mut facts = BTreeSet::new();
        for n in db.iter_nodes() {
            let id = n.id.as_u64();
            facts.insert(format!("n|{id}"));
            for l in n.labels.iter() {
                facts.insert(format!("l|{id}|{}", l.as_str()));
            }
            for (k, v) in n.properties.iter() {
                facts.insert(format!("p|{id}|{}|{}", k.as_str(), canon(v)));
            }
        }
        for e in db.iter_edges() {
            let id = e.id.as_u64();
            facts.insert(format!("e|{id}|{}|{}|{}", e.src.as_u64(), e.dst.as_u64(), e.edge_type.as_str()));
            for (k, v) in e.properties.iter() {
                facts.insert(format!("q|{id}|{}|{}", k.as_str(), canon(v)));
            }
        }
        for t in db.rdf_store().triples() {
            facts.insert(format!("t|{:?}", t));
        }
        Dump { facts }
    }
    pub fn node_ids(&self) -> BTreeSet<u64> {
        self.facts.iter().filter_map(|f| f.strip_prefix("n|").and_then(|s| s.parse().ok())).collect()
    }
    pub fn edge_ids(&self) -> BTreeSet<u64> {
        self.facts.iter().filter_map(|f| f.strip_prefix("e|").and_then(|s| s.split('|').next()).and_then(|s| s.parse().ok())).collect()
    }
    pub fn missing_in(&self, other: &Dump) -> Vec<String> {
        self.facts.difference(&other.facts).cloned().collect()
    }
    pub fn brief(&self) -> String {
        let v: Vec<&str> = self.facts.iter().map(|s| s.as_str()).collect();
        vcore::truncate(&v.join(" "), 400)
    }
    pub fn json(&self) -> J {
        json!(self.facts.iter().collect::<Vec<_>>())
    }
}

/// "lost: [...] extra: [...]" between the expected and the observed dump.
pub fn diff_text(expected: &Dump, got: &Dump) -> String {
    let lost = expected.missing_in(got);
    let extra = got.missing_in(expected);
    vcore::truncate(&format!("lost={lost:?} extra={extra:?}"), 500)
}

/// The entity a fact belongs to ("n<id>" / "e<id>" / "t").
pub fn fact_owner(f: &str) -> String {
    let mut it = f.split('|');
    let kind = it.next().unwrap_or("");
    let id = it.next().unwrap_or("");
    match kind {
        "n" | "l" | "p" => format!("n{id}"),
        "e" | "q" => format!("e{id}"),
        _ => "t".to_string(),
    }
}
pub fn owner_fact_prefix(owner: &str) -> String {
    if let Some(id) = owner.strip_prefix('n') { format!("n|{id}") } else if let Some(id) = owner.strip_prefix('e') { format!("e|{id}|") } else { "t|".into() }
}

// ---------------------------------------------------------------------------
// operation alphabet
// ---------------------------------------------------------------------------

#[derive(Clone, Debug, PartialEq, Eq, Hash, PartialOrd, Ord)]
pub enum Op {
    /// label-set index: 0 = [], 1 = [A], 2 = [A,B]
    CreateNode(u8),
    /// labels [A], properties {p: 1, q: "s"}  (three log records)
    CreateNodeProps,
    DeleteNode(u8),
    /// node slot, value index (key "p")
    SetNodeProp(u8, u8),
    RemoveNodeProp(u8),
    /// add label "B" to the node slot
    AddLabel(u8),
    /// remove label "A" from the node slot
    RemoveLabel(u8),
    /// src slot, dst slot (type "K")
    CreateEdge(u8, u8),
    /// src slot, dst slot, properties {w: 1, v: "s"}
    CreateEdgeProps(u8, u8),
    DeleteEdge(u8),
    /// edge slot, value index (key "w")
    SetEdgeProp(u8, u8),
    RemoveEdgeProp(u8),
    BatchCreate(u8),
    /// mutating statement: see `QUERIES`
    Query(u8),
    TxCommit,
    TxRollback,
    /// `Session::create_node` (direct API of the session)
    SessionCreateNode,
    Checkpoint,
    CloseOpen,
    /// drop the handle without calling close(), then open (Drop calls close())
    DropOpen,
}

/// (language, text, class)
pub const QUERIES: [(&str, &str, &str); 8] = [
    ("gql", "INSERT (:A {p: 1})", "query-mutation-gql-insert"),
    ("cypher", "CREATE (:A {p: 1})", "query-mutation-cypher-create"),
    ("gremlin", "g.addV('A').property('p', 1)", "query-mutation-gremlin-addv"),
    ("graphql", "mutation { createA(p: 1) { p } }", "query-mutation-graphql-create"),
    ("sparql", "INSERT DATA { <http://ex.org/s> <http://ex.org/p> \"v\" }", "query-mutation-sparql-insert"),
    ("gql", "MATCH (n:A) SET n.z = 5", "query-mutation-gql-set"),
    ("gql", "MATCH (n:A) DETACH DELETE n", "query-mutation-gql-delete"),
    ("cypher", "MATCH (a:A), (b:A) CREATE (a)-[:R]->(b)", "query-mutation-cypher-create-edge"),
];

impl Op {
    pub fn is_reopen(&self) -> bool {
        matches!(self, Op::CloseOpen | Op::DropOpen)
    }
    /// Mechanism class used in violation signatures.
    pub fn class(&self) -> &'static str {
        match self {
            Op::CreateNode(_) => "create-node",
            Op::CreateNodeProps => "create-node-with-props",
            Op::DeleteNode(_) => "delete-node",
            Op::SetNodeProp(..) => "set-node-property",
            Op::RemoveNodeProp(_) => "remove-node-property",
            Op::AddLabel(_) => "add-label",
            Op::RemoveLabel(_) => "remove-label",
            Op::CreateEdge(..) => "create-edge",
            Op::CreateEdgeProps(..) => "create-edge-with-props",
            Op::DeleteEdge(_) => "delete-edge",
            Op::SetEdgeProp(..) => "set-edge-property",
            Op::RemoveEdgeProp(_) => "remove-edge-property",
            Op::BatchCreate(_) => "batch-create-nodes",
            Op::Query(q) => QUERIES[(*q as usize).min(QUERIES.len() - 1)].2,
            Op::TxCommit => "session-tx-commit",
            Op::TxRollback => "session-tx-rollback",
            Op::SessionCreateNode => "session-api-create-node",
            Op::Checkpoint => "checkpoint",
            Op::CloseOpen => "close-open",
            Op::DropOpen => "drop-open",
        }
    }
    pub fn text(&self) -> String {
        match self {
            Op::CreateNode(l) => format!("create_node({l})"),
            Op::CreateNodeProps => "create_node_with_props()".into(),
            Op::DeleteNode(n) => format!("delete_node({n})"),
            Op::SetNodeProp(n, v) => format!("set_node_property({n},{v})"),
            Op::RemoveNodeProp(n) => format!("remove_node_property({n})"),
            Op::AddLabel(n) => format!("add_node_label({n})"),
            Op::RemoveLabel(n) => format!("remove_node_label({n})"),
            Op::CreateEdge(a, b) => format!("create_edge({a},{b})"),
            Op::CreateEdgeProps(a, b) => format!("create_edge_with_props({a},{b})"),
            Op::DeleteEdge(e) => format!("delete_edge({e})"),
            Op::SetEdgeProp(e, v) => format!("set_edge_property({e},{v})"),
            Op::RemoveEdgeProp(e) => format!("remove_edge_property({e})"),
            Op::BatchCreate(n) => format!("batch_create_nodes({n})"),
            Op::Query(q) => format!("query({q})"),
            Op::TxCommit => "session_tx_commit()".into(),
            Op::TxRollback => "session_tx_rollback()".into(),
            Op::SessionCreateNode => "session_create_node()".into(),
            Op::Checkpoint => "wal_checkpoint()".into(),
            Op::CloseOpen => "close_open()".into(),
            Op::DropOpen => "drop_open()".into(),
        }
    }
    pub fn parse(s: &str) -> Option<Op> {
        let (name, rest) = s.split_once('(')?;
        let a: Vec<u8> = rest.trim_end_matches(')').split(',').filter(|x| !x.trim().is_empty()).filter_map(|x| x.trim().parse().ok()).collect();
        let g = |i: usize| a.get(i).copied();
        Some(match name {
            "create_node" => Op::CreateNode(g(0)?),
            "create_node_with_props" => Op::CreateNodeProps,
            "delete_node" => Op::DeleteNode(g(0)?),
            "set_node_property" => Op::SetNodeProp(g(0)?, g(1)?),
            "remove_node_property" => Op::RemoveNodeProp(g(0)?),
            "add_node_label" => Op::AddLabel(g(0)?),
            "remove_node_label" => Op::RemoveLabel(g(0)?),
            "create_edge" => Op::CreateEdge(g(0)?, g(1)?),
            "create_edge_with_props" => Op::CreateEdgeProps(g(0)?, g(1)?),
            "delete_edge" => Op::DeleteEdge(g(0)?),
            "set_edge_property" => Op::SetEdgeProp(g(0)?, g(1)?),
            "remove_edge_property" => Op::RemoveEdgeProp(g(0)?),
            "batch_create_nodes" => Op::BatchCreate(g(0)?),
            "query" => Op::Query(g(0)?),
            "session_tx_commit" => Op::TxCommit,
            "session_tx_rollback" => Op::TxRollback,
            "session_create_node" => Op::SessionCreateNode,
            "wal_checkpoint" => Op::Checkpoint,
            "close_open" => Op::CloseOpen,
            "drop_open" => Op::DropOpen,
            _ => return None,
        })
    }
    /// Number of node / edge slots the operation needs to exist.
    pub fn needs(&self) -> (usize, usize) {
        match self {
            Op::DeleteNode(n) | Op::SetNodeProp(n, _) | Op::RemoveNodeProp(n) | Op::AddLabel(n) | Op::RemoveLabel(n) => (*n as usize + 1, 0),
            Op::CreateEdge(a, b) | Op::CreateEdgeProps(a, b) => ((*a).max(*b) as usize + 1, 0),
            Op::DeleteEdge(e) | Op::SetEdgeProp(e, _) | Op::RemoveEdgeProp(e) => (0, *e as usize + 1),
            _ => (0, 0),
        }
    }
}

/// Is the slot discipline of `ops` statically satisfiable (every referenced slot was created earlier)?
/// Statements count as creating what they always create on any state (INSERT-like: one node).
pub fn well_formed(ops: &[Op]) -> bool {
    let (mut n, mut e) = (0usize, 0usize);
    for op in ops {
        let (nn, ne) = op.needs();
        if n < nn || e < ne {
            return false;
        }
        match op {
            Op::CreateNode(_) | Op::CreateNodeProps | Op::SessionCreateNode | Op::TxCommit => n += 1,
            Op::Query(q) if *q <= 3 => n += 1,
            Op::BatchCreate(k) => n += *k as usize,
            Op::CreateEdge(..) | Op::CreateEdgeProps(..) => e += 1,
            _ => {}
        }
    }
    true
}

pub fn hist_text(h: &[Op]) -> Vec<String> {
    h.iter().map(|o| o.text()).collect()
}
pub fn hist_parse(j: &J) -> Vec<Op> {
    j.as_array().map(|a| a.iter().filter_map(|s| s.as_str().and_then(Op::parse)).collect()).unwrap_or_default()
}

pub fn label_set(i: u8) -> Vec<&'static str> {
    match i {
        0 => vec![],
        1 => vec!["A"],
        _ => vec!["A", "B"],
    }
}

/// Identifier bookkeeping of one history (slots = creation order of everything ever handed out).
#[derive(Clone, Debug, Default)]
pub struct Slots {
    pub nodes: Vec<NodeId>,
    pub edges: Vec<EdgeId>,
    pub handed_nodes: BTreeSet<u64>,
    pub handed_edges: BTreeSet<u64>,
}

#[derive(Clone, Debug, Default)]
pub struct OpOut {
    /// ids returned by the API (or discovered by diffing the id sets for statements)
    pub new_nodes: Vec<u64>,
    pub new_edges: Vec<u64>,
    /// ids among them that had been handed out before
    pub reused_nodes: Vec<u64>,
    pub reused_edges: Vec<u64>,
    pub err: Option<String>,
}

fn live_node_ids(db: &GrafeoDB) -> BTreeSet<u64> {
    db.store().node_ids().into_iter().map(|n| n.as_u64()).collect()
}
fn live_edge_ids(db: &GrafeoDB) -> BTreeSet<u64> {
    db.iter_edges().map(|e| e.id.as_u64()).collect()
}

/// Applies one non-reopen operation to the real database.  Operations whose slots do not
/// exist are skipped (the enumerators never generate them).
pub fn apply_op(db: &GrafeoDB, s: &mut Slots, op: &Op) -> OpOut {
    let mut out = OpOut::default();
    let (nn, ne) = op.needs();
    if s.nodes.len() < nn || s.edges.len() < ne {
        out.err = Some("slot missing".into());
        return out;
    }
    let n = |i: u8| s.nodes[i as usize];
    let e = |i: u8| s.edges[i as usize];
    let mut by_diff = false;
    let (before_n, before_e) = match op {
        Op::Query(_) | Op::TxCommit | Op::TxRollback => {
            by_diff = true;
            (live_node_ids(db), live_edge_ids(db))
        }
        _ => (BTreeSet::new(), BTreeSet::new()),
    };
    match op {
        Op::CreateNode(l) => out.new_nodes.push(db.create_node(&label_set(*l)).as_u64()),
        Op::CreateNodeProps => out.new_nodes.push(db.create_node_with_props(&["A"], vec![("p", Value::Int64(1)), ("q", Value::String("s".into()))]).as_u64()),
        Op::DeleteNode(i) => {
            db.delete_node(n(*i));
        }
        Op::SetNodeProp(i, v) => db.set_node_property(n(*i), "p", val(*v)),
        Op::RemoveNodeProp(i) => {
            db.remove_node_property(n(*i), "p");
        }
        Op::AddLabel(i) => {
            db.add_node_label(n(*i), "B");
        }
        Op::RemoveLabel(i) => {
            db.remove_node_label(n(*i), "A");
        }
        Op::CreateEdge(a, b) => out.new_edges.push(db.create_edge(n(*a), n(*b), "K").as_u64()),
        Op::CreateEdgeProps(a, b) => {
            out.new_edges.push(db.create_edge_with_props(n(*a), n(*b), "K", vec![("w", Value::Int64(1)), ("v", Value::String("s".into()))]).as_u64())
        }
        Op::DeleteEdge(i) => {
            db.delete_edge(e(*i));
        }
        Op::SetEdgeProp(i, v) => db.set_edge_property(e(*i), "w", val(*v)),
        Op::RemoveEdgeProp(i) => {
            db.remove_edge_property(e(*i), "w");
        }
        Op::BatchCreate(k) => {
            let vecs: Vec<Vec<f32>> = (0..*k).map(|j| vec![j as f32, 0.5]).collect();
            for id in db.batch_create_nodes("A", "emb", vecs) {
                out.new_nodes.push(id.as_u64());
            }
        }
        Op::Query(q) => {
            let (lang, text, _) = QUERIES[(*q as usize).min(QUERIES.len() - 1)];
            let sess = db.session();
            let r = match lang {
                "gql" => sess.execute(text),
                "cypher" => sess.execute_cypher(text),
                "gremlin" => sess.execute_gremlin(text),
                "graphql" => sess.execute_graphql(text),
                _ => sess.execute_sparql(text),
            };
            if let Err(e) = r {
                out.err = Some(e.to_string());
            }
        }
        Op::TxCommit | Op::TxRollback => {
            let mut sess = db.session();
            let r = (|| {
                sess.begin_tx()?;
                sess.execute("INSERT (:A {p: 2})")?;
                if matches!(op, Op::TxCommit) { sess.commit() } else { sess.rollback() }
            })();
            if let Err(e) = r {
                out.err = Some(e.to_string());
            }
        }
        Op::SessionCreateNode => out.new_nodes.push(db.session().create_node(&["A"]).as_u64()),
        Op::Checkpoint => {
            if let Err(e) = db.wal_checkpoint() {
                out.err = Some(e.to_string());
            }
        }
        Op::CloseOpen | Op::DropOpen => out.err = Some("reopen is handled by the driver".into()),
    }
    if by_diff {
        out.new_nodes = live_node_ids(db).difference(&before_n).copied().collect();
        out.new_edges = live_edge_ids(db).difference(&before_e).copied().collect();
    }
    for id in &out.new_nodes {
        if !s.handed_nodes.insert(*id) {
            out.reused_nodes.push(*id);
        }
        s.nodes.push(NodeId::new(*id));
    }
    for id in &out.new_edges {
        if !s.handed_edges.insert(*id) {
            out.reused_edges.push(*id);
        }
        s.edges.push(EdgeId::new(*id));
    }
    out
}

// ---------------------------------------------------------------------------
// directory images
// ---------------------------------------------------------------------------

/// relative path -> bytes, for every regular file below a directory
pub type Image = BTreeMap<String, Vec<u8>>;

pub fn read_image(root: &Path) -> Image {
    fn walk(root: &Path, dir: &Path, out: &mut Image) {
        let Ok(rd) = std::fs::read_dir(dir) else { return };
        for ent in rd.flatten() {
            let p = ent.path();
            match ent.file_type() {
                Ok(t) if t.is_dir() => walk(root, &p, out),
                Ok(t) if t.is_file() => {
                    if let (Ok(rel), Ok(bytes)) = (p.strip_prefix(root), std::fs::read(&p)) {
                        out.insert(rel.to_string_lossy().into_owned(), bytes);
                    }
                }
                _ => {}
            }
        }
    }
    let mut out = Image::new();
    walk(root, root, &mut out);
    out
}

pub fn write_image(root: &Path, img: &Image) {
    let _ = std::fs::remove_dir_all(root);
    std::fs::create_dir_all(root).unwrap_or_else(|e| vcore::machinery_failure(&format!("create {root:?}: {e}")));
    for (rel, bytes) in img {
        let p = root.join(rel);
        if let Some(d) = p.parent() {
            std::fs::create_dir_all(d).unwrap_or_else(|e| vcore::machinery_failure(&format!("create {d:?}: {e}")));
        }
        std::fs::write(&p, bytes).unwrap_or_else(|e| vcore::machinery_failure(&format!("write {p:?}: {e}")));
    }
}

/// A work directory whose content is kept equal to the last image set, rewriting only what differs
/// (for read-only consumers such as `WalRecovery::recover`).
pub struct Work {
    pub dir: PathBuf,
    cur: Image,
}
impl Work {
    pub fn new(dir: PathBuf) -> Work {
        let _ = std::fs::remove_dir_all(&dir);
        std::fs::create_dir_all(&dir).unwrap_or_else(|e| vcore::machinery_failure(&format!("create {dir:?}: {e}")));
        Work { dir, cur: Image::new() }
    }
    pub fn set(&mut self, img: &Image) {
        let stale: Vec<String> = self.cur.keys().filter(|k| !img.contains_key(*k)).cloned().collect();
        for k in stale {
            let _ = std::fs::remove_file(self.dir.join(&k));
            self.cur.remove(&k);
        }
        for (k, v) in img {
            if self.cur.get(k) != Some(v) {
                let p = self.dir.join(k);
                if k.contains('/')
                    && let Some(d) = p.parent()
                {
                    let _ = std::fs::create_dir_all(d);
                }
                std::fs::write(&p, v).unwrap_or_else(|e| vcore::machinery_failure(&format!("write {p:?}: {e}")));
                self.cur.insert(k.clone(), v.clone());
            }
        }
    }
}
impl Drop for Work {
    fn drop(&mut self) {
        let _ = std::fs::remove_dir_all(&self.dir);
    }
}

pub fn is_log_file(rel: &str) -> bool {
    let name = rel.rsplit('/').next().unwrap_or(rel);
    name.starts_with("wal_") && name.ends_with(".log")
}
pub fn is_tmp_file(rel: &str) -> bool {
    rel.ends_with("checkpoint.meta.tmp")
}

/// checkpoint.meta bytes with the wall-clock `timestamp_ms` (a 9-byte bincode varint: 0xFD + u64) zeroed.
pub fn mask_meta(bytes: &[u8]) -> Vec<u8> {
    let mut v = bytes.to_vec();
    if let Some(i) = v.iter().position(|b| *b == 0xFD)
        && i + 9 <= v.len()
    {
        for x in &mut v[i + 1..i + 9] {
            *x = 0;
        }
    }
    v
}

/// Hash of a directory image, blind to the wall-clock timestamp inside checkpoint.meta(.tmp).
pub fn image_hash(img: &Image) -> u64 {
    let v: Vec<(&String, Vec<u8>)> = img.iter().map(|(k, b)| if k.contains("checkpoint.meta") { (k, mask_meta(b)) } else { (k, b.clone()) }).collect();
    vcore::hash_of(&v)
}

/// Record framing of an intact log file: (start offset, payload length) of every whole record.
pub fn frames(bytes: &[u8]) -> Vec<(usize, usize)> {
    let mut out = vec![];
    let mut off = 0usize;
    while off + 4 <= bytes.len() {
        let len = u32::from_le_bytes([bytes[off], bytes[off + 1], bytes[off + 2], bytes[off + 3]]) as usize;
        if off + 8 + len > bytes.len() {
            break;
        }
        out.push((off, len));
        off += 8 + len;
    }
    out
}

/// Where inside the framing a byte offset falls: "length" | "payload" | "checksum" | "boundary" (== start of a record / EOF) | "beyond".
pub fn frame_part(fr: &[(usize, usize)], off: usize) -> &'static str {
    for (s, l) in fr {
        if off == *s {
            return "boundary";
        }
        if off > *s && off < s + 4 {
            return "length";
        }
        if off >= s + 4 && off < s + 4 + l {
            return "payload";
        }
        if off >= s + 4 + l && off < s + 8 + l {
            return "checksum";
        }
    }
    match fr.last() {
        Some((s, l)) if off == s + 8 + l => "boundary",
        None if off == 0 => "boundary",
        _ => "beyond",
    }
}
/// For a *bit flip* the byte itself is classified (offset == record start means the first length byte).
pub fn frame_part_of_byte(fr: &[(usize, usize)], off: usize) -> &'static str {
    for (s, l) in fr {
        if off >= *s && off < s + 4 {
            return "length";
        }
        if off >= s + 4 && off < s + 4 + l {
            return "payload";
        }
        if off >= s + 4 + l && off < s + 8 + l {
            return "checksum";
        }
    }
    "beyond"
}

// ---------------------------------------------------------------------------
// H2 recorder: directory snapshots at io events (thread-local; the hook is process-global)
// ---------------------------------------------------------------------------

#[derive(Clone, Debug)]
pub struct Instant {
    /// "op-boundary" or the io-hook kind
    pub tag: String,
    /// index of the operation in progress (or just finished, for "op-boundary")
    pub op_index: usize,
    pub image: Image,
    /// relative log file -> bytes known durable (last wal.sync length); absent = 0
    pub durable: BTreeMap<String, u64>,
    /// number of wal.sync events seen so far
    pub syncs: u64,
}

pub struct Recorder {
    pub root: PathBuf,
    pub durable: BTreeMap<String, u64>,
    pub syncs: u64,
    pub op_index: usize,
    pub enabled: bool,
    pub instants: Vec<Instant>,
    /// every io event seen, even when snapshots are disabled: (op index, kind)
    pub events: Vec<(usize, String)>,
}

thread_local! {
    static REC: RefCell<Option<Recorder>> = const { RefCell::new(None) };
}

/// Cross-thread event list: (root, [(kind, reported length, file length at that instant)]).
static CROSS: std::sync::Mutex<Option<(PathBuf, Vec<(String, u64, u64)>)>> = std::sync::Mutex::new(None);
pub fn cross_start(root: &Path) {
    install_hook();
    *CROSS.lock().unwrap_or_else(|e| e.into_inner()) = Some((root.to_path_buf(), vec![]));
}
pub fn cross_stop() -> Vec<(String, u64, u64)> {
    CROSS.lock().unwrap_or_else(|e| e.into_inner()).take().map(|x| x.1).unwrap_or_default()
}

/// Installs the process-global io hook (idempotent) that routes events to the calling thread's recorder.
pub fn install_hook() {
    static ONCE: std::sync::Once = std::sync::Once::new();
    ONCE.call_once(|| {
        grafeo_common::verif_hooks::set_io_hook(Some(Box::new(|kind: &'static str, path: &Path, len: u64| {
            let mut taken = false;
            REC.with(|r| {
                if let Ok(mut g) = r.try_borrow_mut()
                    && let Some(rec) = g.as_mut()
                    && path.starts_with(&rec.root)
                {
                    rec.on_event(kind, path, len);
                    taken = true;
                }
            });
            // events raised on threads the engine spawned itself (AdaptiveFlusher) go to the cross-thread list
            if !taken
                && let Ok(mut g) = CROSS.lock()
                && let Some((root, list)) = g.as_mut()
                && path.starts_with(&*root)
            {
                let file_len = std::fs::metadata(path).map(|m| m.len()).unwrap_or(u64::MAX);
                list.push((kind.to_string(), len, file_len));
            }
        })));
    });
}

impl Recorder {
    pub fn start(root: &Path) {
        install_hook();
        REC.with(|r| {
            *r.borrow_mut() = Some(Recorder {
                root: root.to_path_buf(),
                durable: BTreeMap::new(),
                syncs: 0,
                op_index: 0,
                enabled: true,
                instants: vec![],
                events: vec![],
            })
        });
    }
    pub fn stop() -> Option<Recorder> {
        REC.with(|r| r.borrow_mut().take())
    }
    pub fn with<T>(f: impl FnOnce(&mut Recorder) -> T) -> T {
        REC.with(|r| f(r.borrow_mut().as_mut().expect("recorder active")))
    }
    fn on_event(&mut self, kind: &'static str, path: &Path, len: u64) {
        if kind == "wal.sync" {
            // the instant just before the fsync completed: the bytes are in the file, none of the new ones is durable yet
            if self.enabled {
                self.snapshot("wal.sync.pre");
            }
            if let Ok(rel) = path.strip_prefix(&self.root) {
                self.durable.insert(rel.to_string_lossy().into_owned(), len);
            }
            self.syncs += 1;
        }
        self.events.push((self.op_index, kind.to_string()));
        if self.enabled {
            self.snapshot(kind);
        }
    }
    pub fn snapshot(&mut self, tag: &str) {
        let image = read_image(&self.root);
        self.instants.push(Instant { tag: tag.to_string(), op_index: self.op_index, image, durable: self.durable.clone(), syncs: self.syncs });
    }
}

// ---------------------------------------------------------------------------
// watchdog for calls that must return
// ---------------------------------------------------------------------------

/// Runs `f` on the current thread while a registry lets a background watchdog notice a call that does
/// not return: verdict "hang" when the calling thread has burnt `HANG_CPU_SECS` of CPU inside one call
/// (a normal call takes about a millisecond), or has been inside it for `HANG_WALL_SECS` of wall time
/// (blocked forever).  CPU time, not wall time, is the primary criterion, so that an overloaded machine
/// cannot produce a verdict.
pub mod watchdog {
    use std::sync::Mutex;
    use std::time::Instant;
    pub const HANG_CPU_SECS: u64 = 30;
    pub const HANG_WALL_SECS: u64 = 1800;
    struct Slot {
        tid: u32,
        generation: u64,
        busy: bool,
        start: Instant,
        what: String,
    }
    static SLOTS: Mutex<Vec<Slot>> = Mutex::new(Vec::new());
    thread_local! { static MY: std::cell::Cell<usize> = const { std::cell::Cell::new(usize::MAX) }; }

    /// CPU ticks (utime + stime, USER_HZ = 100) of one thread of this process.
    fn thread_ticks(tid: u32) -> Option<u64> {
        let s = std::fs::read_to_string(format!("/proc/self/task/{tid}/stat")).ok()?;
        let rest = &s[s.rfind(')')? + 1..];
        let f: Vec<&str> = rest.split_whitespace().collect();
        Some(f.get(11)?.parse::<u64>().ok()? + f.get(12)?.parse::<u64>().ok()?)
    }

    pub fn start(property: &'static str) {
        static ONCE: std::sync::Once = std::sync::Once::new();
        ONCE.call_once(|| {
            std::thread::spawn(move || {
                // (slot, generation) -> ticks when first seen busy
                let mut seen: std::collections::HashMap<(usize, u64), u64> = std::collections::HashMap::new();
                loop {
                    std::thread::sleep(std::time::Duration::from_secs(2));
                    let mut verdict: Option<(String, String)> = None;
                    {
                        let g = SLOTS.lock().unwrap_or_else(|e| e.into_inner());
                        seen.retain(|(i, generation), _| g.get(*i).map(|s| s.busy && s.generation == *generation).unwrap_or(false));
                        for (i, s) in g.iter().enumerate().filter(|(_, s)| s.busy) {
                            let now = thread_ticks(s.tid).unwrap_or(0);
                            let first = *seen.entry((i, s.generation)).or_insert(now);
                            let cpu_s = now.saturating_sub(first) / 100;
                            if cpu_s >= HANG_CPU_SECS {
                                verdict = Some((s.what.clone(), format!("the call has consumed {cpu_s} s of CPU without returning")));
                            } else if s.start.elapsed().as_secs() >= HANG_WALL_SECS {
                                verdict = Some((s.what.clone(), format!("the call has not returned after {HANG_WALL_SECS} s of wall time ({cpu_s} s CPU)")));
                            }
                        }
                    }
                    if let Some((what, why)) = verdict {
                        let dir = vcore::verif_root().join("replays").join(property);
                        let _ = std::fs::create_dir_all(&dir);
                        let path = dir.join(format!("hang-{:016x}.json", vcore::hash_of(&what)));
                        let _ = std::fs::write(&path, format!("{{\"property\":\"{property}\",\"signature\":{{\"kind\":\"hang\"}},\"detail\":\"{why}\",\"case\":{what}}}"));
                        println!("VIOLATION property={property} replay={} sig=[kind=hang] n=1 :: {why}: {}", path.display(), vcore::truncate(&what, 300));
                        std::process::exit(1);
                    }
                }
            });
        });
    }
    /// `what` renders the JSON text of the case.
    pub fn guard<T>(what: impl FnOnce() -> String, f: impl FnOnce() -> T) -> T {
        let idx = MY.with(|m| {
            if m.get() == usize::MAX {
                let tid = std::fs::read_link("/proc/thread-self").ok().and_then(|p| p.file_name().and_then(|n| n.to_str().and_then(|s| s.parse().ok()))).unwrap_or(0);
                let mut g = SLOTS.lock().unwrap_or_else(|e| e.into_inner());
                g.push(Slot { tid, generation: 0, busy: false, start: Instant::now(), what: String::new() });
                m.set(g.len() - 1);
            }
            m.get()
        });
        {
            let w = what();
            let mut g = SLOTS.lock().unwrap_or_else(|e| e.into_inner());
            let s = &mut g[idx];
            s.generation += 1;
            s.busy = true;
            s.start = Instant::now();
            s.what = w;
        }
        let r = f();
        {
            let mut g = SLOTS.lock().unwrap_or_else(|e| e.into_inner());
            g[idx].busy = false;
        }
        r
    }
}

/// A fresh, empty sub-directory `<base>/<tag>` (removed first if present).
pub fn fresh_dir(base: &Path, tag: &str) -> PathBuf {
    let p = base.join(tag);
    let _ = std::fs::remove_dir_all(&p);
    std::fs::create_dir_all(&p).unwrap_or_else(|e| vcore::machinery_failure(&format!("create {p:?}: {e}")));
    p
}
