//! Round-trip / random-access / iterator / byte-image / truncation identities of
//! the storage codecs, one function per codec.  Every stage runs under `Cx::run`.

use crate::common::*;
use grafeo_core::storage::dictionary::IntoDictionaryEncoding;
use grafeo_core::storage::runlength as rl;
use grafeo_core::storage::{
    BitPackedInts, BitVector, CodecSelector, CompressionCodec, DeltaBitPacked, DeltaEncoding, DictionaryBuilder, DictionaryEncoding, RunLengthEncoding,
    SignedRunLengthEncoding, TypeSpecificCompressor, zigzag_decode, zigzag_encode,
};
use serde_json::Value as J;
use vcore::Violation;

pub struct Out {
    pub viols: Vec<Violation>,
    pub trunc_tried: u64,
    pub trunc_accepted: u64,
    pub note: String,
}
impl Out {
    fn of(cx: Cx, t: (u64, u64), note: String) -> Out {
        Out { viols: cx.out, trunc_tried: t.0, trunc_accepted: t.1, note }
    }
}

fn beyond(n: usize) -> [usize; 4] {
    [n, n + 1, n + 64, usize::MAX]
}

fn consistent_bitpack(e: &BitPackedInts) -> Result<(), String> {
    let d = e.unpack();
    if d.len() != e.len() {
        return Err(format!("unpack().len()={} but len()={}", d.len(), e.len()));
    }
    for (i, v) in d.iter().enumerate() {
        if e.get(i) != Some(*v) {
            return Err(format!("get({i})={:?} but unpack()[{i}]={v}", e.get(i)));
        }
    }
    Ok(())
}

/// `BitPackedInts::pack` (width None) or `pack_with_bits` (precondition: every value fits).
pub fn chk_bitpack(vals: &[u64], width: Option<u8>, case: &dyn Fn() -> J) -> Out {
    let (codec, class) = match width {
        None => ("bitpack", class_u(vals).to_string()),
        Some(w) => ("bitpack_w", format!("width-{w}")),
    };
    let mut cx = Cx::new("codec", codec, &class, case);
    let n = vals.len();
    let mut t = (0, 0);
    let mut note = String::new();
    'c: {
        let Some(enc) = cx.run("encode", || match width {
            None => BitPackedInts::pack(vals),
            Some(w) => BitPackedInts::pack_with_bits(vals, w),
        }) else {
            break 'c;
        };
        note = format!("bits_per_value={}", enc.bits_per_value());
        if let Some(d) = cx.run("decode", || enc.unpack()) {
            cx.eq_slices("roundtrip", "unpack", &d, vals);
        }
        if enc.len() != n || enc.is_empty() != (n == 0) {
            cx.fail("roundtrip", "len", format!("len()={} is_empty()={} for {n} values", enc.len(), enc.is_empty()));
        }
        if let Some(w) = width {
            if enc.bits_per_value() != w {
                cx.fail("roundtrip", "bits_per_value", format!("asked for {w} bits, block says {}", enc.bits_per_value()));
            }
        }
        if let Some(g) = cx.run("get", || (0..n).map(|i| enc.get(i)).collect::<Vec<_>>()) {
            let want: Vec<Option<u64>> = vals.iter().map(|v| Some(*v)).collect();
            cx.eq_slices("get", "get", &g, &want);
        }
        for i in beyond(n) {
            if let Some(Some(v)) = cx.run("get-beyond", || enc.get(i)) {
                cx.fail("get", "get-beyond", format!("get({i}) = Some({v}) for a block of {n} values"));
            }
        }
        let Some(b) = cx.run("to_bytes", || enc.to_bytes()) else { break 'c };
        match cx.run("from_bytes", || BitPackedInts::from_bytes(&b)) {
            Some(Ok(e2)) => {
                if let Some(d) = cx.run("decode-after-bytes", || e2.unpack()) {
                    cx.eq_slices("bytes", "unpack-after-bytes", &d, vals);
                }
                if let Some(b2) = cx.run("to_bytes-again", || e2.to_bytes()) {
                    if b2 != b {
                        cx.fail("bytes", "reserialise", "to_bytes(from_bytes(b)) != b".into());
                    }
                }
            }
            Some(Err(e)) => cx.fail("bytes", "from_bytes", format!("from_bytes(to_bytes(x)) = Err({e})")),
            None => {}
        }
        t = check_trunc(&mut cx, &b, BitPackedInts::from_bytes, consistent_bitpack);
    }
    Out::of(cx, t, note)
}

/// `DeltaEncoding::encode` — documented precondition: ascending input.
pub fn chk_delta_u(vals: &[u64], case: &dyn Fn() -> J) -> Out {
    let mut cx = Cx::new("codec", "delta_u", class_u(vals), case);
    let n = vals.len();
    let mut t = (0, 0);
    'c: {
        let Some(enc) = cx.run("encode", || DeltaEncoding::encode(vals)) else { break 'c };
        if let Some(d) = cx.run("decode", || enc.decode()) {
            cx.eq_slices("roundtrip", "decode", &d, vals);
        }
        if enc.len() != n || enc.is_empty() != (n == 0) {
            cx.fail("roundtrip", "len", format!("len()={} is_empty()={} for {n} values", enc.len(), enc.is_empty()));
        }
        if n > 0 && enc.base() != vals[0] {
            cx.fail("roundtrip", "base", format!("base()={} first value {}", enc.base(), vals[0]));
        }
        let Some(b) = cx.run("to_bytes", || enc.to_bytes()) else { break 'c };
        match cx.run("from_bytes", || DeltaEncoding::from_bytes(&b)) {
            Some(Ok(e2)) => {
                if let Some(d) = cx.run("decode-after-bytes", || e2.decode()) {
                    cx.eq_slices("bytes", "decode-after-bytes", &d, vals);
                }
                if cx.run("to_bytes-again", || e2.to_bytes()).is_some_and(|b2| b2 != b) {
                    cx.fail("bytes", "reserialise", "to_bytes(from_bytes(b)) != b".into());
                }
            }
            Some(Err(e)) => cx.fail("bytes", "from_bytes", format!("from_bytes(to_bytes(x)) = Err({e})")),
            None => {}
        }
        t = check_trunc(&mut cx, &b, DeltaEncoding::from_bytes, |e| {
            let d = e.decode();
            if d.len() == e.len() { Ok(()) } else { Err(format!("decode().len()={} len()={}", d.len(), e.len())) }
        });
    }
    Out::of(cx, t, String::new())
}

/// `DeltaBitPacked::encode` — documented for sorted values.
pub fn chk_dbp(vals: &[u64], case: &dyn Fn() -> J) -> Out {
    let mut cx = Cx::new("codec", "delta_bitpacked", class_u(vals), case);
    let n = vals.len();
    let mut t = (0, 0);
    let mut note = String::new();
    'c: {
        let Some(enc) = cx.run("encode", || DeltaBitPacked::encode(vals)) else { break 'c };
        note = format!("bits_per_delta={}", enc.bits_per_delta());
        if let Some(d) = cx.run("decode", || enc.decode()) {
            cx.eq_slices("roundtrip", "decode", &d, vals);
        }
        if enc.len() != n || enc.is_empty() != (n == 0) {
            cx.fail("roundtrip", "len", format!("len()={} is_empty()={} for {n} values", enc.len(), enc.is_empty()));
        }
        let Some(b) = cx.run("to_bytes", || enc.to_bytes()) else { break 'c };
        match cx.run("from_bytes", || DeltaBitPacked::from_bytes(&b)) {
            Some(Ok(e2)) => {
                if let Some(d) = cx.run("decode-after-bytes", || e2.decode()) {
                    cx.eq_slices("bytes", "decode-after-bytes", &d, vals);
                }
                if cx.run("to_bytes-again", || e2.to_bytes()).is_some_and(|b2| b2 != b) {
                    cx.fail("bytes", "reserialise", "to_bytes(from_bytes(b)) != b".into());
                }
            }
            Some(Err(e)) => cx.fail("bytes", "from_bytes", format!("from_bytes(to_bytes(x)) = Err({e})")),
            None => {}
        }
        t = check_trunc(&mut cx, &b, DeltaBitPacked::from_bytes, |e| {
            let d = e.decode();
            if d.len() == e.len() { Ok(()) } else { Err(format!("decode().len()={} len()={}", d.len(), e.len())) }
        });
    }
    Out::of(cx, t, note)
}

fn consistent_rle(e: &RunLengthEncoding) -> Result<(), String> {
    // a truncated header cannot promise more runs than bytes; keep the decode bounded anyway
    if e.total_count() > 1 << 24 {
        return Ok(());
    }
    let d = e.decode();
    if d.len() != e.total_count() {
        return Err(format!("decode().len()={} total_count()={}", d.len(), e.total_count()));
    }
    Ok(())
}

pub fn chk_rle_u(vals: &[u64], case: &dyn Fn() -> J) -> Out {
    let mut cx = Cx::new("codec", "rle_u", class_u(vals), case);
    let n = vals.len();
    let mut t = (0, 0);
    let mut note = String::new();
    'c: {
        let Some(enc) = cx.run("encode", || RunLengthEncoding::encode(vals)) else { break 'c };
        note = format!("runs={}", enc.run_count());
        if let Some(d) = cx.run("decode", || enc.decode()) {
            cx.eq_slices("roundtrip", "decode", &d, vals);
        }
        if enc.total_count() != n || enc.is_empty() != (n == 0) {
            cx.fail("roundtrip", "len", format!("total_count()={} is_empty()={} for {n} values", enc.total_count(), enc.is_empty()));
        }
        if let Some(g) = cx.run("get", || (0..n).map(|i| enc.get(i)).collect::<Vec<_>>()) {
            let want: Vec<Option<u64>> = vals.iter().map(|v| Some(*v)).collect();
            cx.eq_slices("get", "get", &g, &want);
        }
        for i in beyond(n) {
            if let Some(Some(v)) = cx.run("get-beyond", || enc.get(i)) {
                cx.fail("get", "get-beyond", format!("get({i}) = Some({v}) for {n} values"));
            }
        }
        if let Some(d) = cx.run("iter", || enc.iter().collect::<Vec<_>>()) {
            cx.eq_slices("iter", "iter", &d, vals);
        }
        if let Some(d) = cx.run("into_iter", || (&enc).into_iter().collect::<Vec<_>>()) {
            cx.eq_slices("iter", "into_iter", &d, vals);
        }
        // ExactSizeIterator: remaining length after j items
        let probes: Vec<usize> = if n <= 130 { (0..=n).collect() } else { vec![0, 1, 63, 64, 65, n - 1, n] };
        if let Some(Some(bad)) = cx.run("iter-len", || {
            let mut it = enc.iter();
            let mut done = 0usize;
            for j in &probes {
                while done < *j {
                    it.next();
                    done += 1;
                }
                if it.len() != n - *j {
                    return Some((*j, it.len()));
                }
            }
            None
        }) {
            cx.fail("iter", "iter-len", format!("after {} items iter().len()={} expected {}", bad.0, bad.1, n - bad.0));
        }
        if let Some(d) = cx.run("from_runs", || RunLengthEncoding::from_runs(enc.runs().to_vec()).decode()) {
            cx.eq_slices("roundtrip", "from_runs", &d, vals);
        }
        let Some(b) = cx.run("to_bytes", || enc.to_bytes()) else { break 'c };
        match cx.run("from_bytes", || RunLengthEncoding::from_bytes(&b)) {
            Some(Ok(e2)) => {
                if let Some(d) = cx.run("decode-after-bytes", || e2.decode()) {
                    cx.eq_slices("bytes", "decode-after-bytes", &d, vals);
                }
                if cx.run("to_bytes-again", || e2.to_bytes()).is_some_and(|b2| b2 != b) {
                    cx.fail("bytes", "reserialise", "to_bytes(from_bytes(b)) != b".into());
                }
            }
            Some(Err(e)) => cx.fail("bytes", "from_bytes", format!("from_bytes(to_bytes(x)) = Err({e})")),
            None => {}
        }
        t = check_trunc(&mut cx, &b, RunLengthEncoding::from_bytes, consistent_rle);
    }
    Out::of(cx, t, note)
}

pub fn codec_name(c: CompressionCodec) -> String {
    match c {
        CompressionCodec::BitPacked { bits } => format!("BitPacked{{{bits}}}"),
        CompressionCodec::DeltaBitPacked { bits } => format!("DeltaBitPacked{{{bits}}}"),
        o => o.name().to_string(),
    }
}

/// `CodecSelector` + `TypeSpecificCompressor` on unsigned input: whatever is picked must round-trip.
pub fn chk_selector_u(vals: &[u64], case: &dyn Fn() -> J) -> (Out, String) {
    let mut cx = Cx::new("codec", "selector_u", class_u(vals), case);
    let mut t = (0, 0);
    let mut pick = String::from("?");
    'c: {
        let Some(sel) = cx.run("select", || CodecSelector::select_for_integers(vals)) else { break 'c };
        pick = sel.name().to_string();
        let Some(cd) = cx.run("compress", || TypeSpecificCompressor::compress_integers(vals)) else { break 'c };
        if cd.codec != sel {
            cx.fail("roundtrip", "codec-tag", format!("selector says {} but the block is tagged {}", codec_name(sel), codec_name(cd.codec)));
        }
        if cd.uncompressed_size != vals.len() * 8 {
            cx.fail("roundtrip", "uncompressed_size", format!("uncompressed_size={} for {} values", cd.uncompressed_size, vals.len()));
        }
        match cx.run("decompress", || TypeSpecificCompressor::decompress_integers(&cd)) {
            Some(Ok(d)) => {
                let p = pick.clone();
                if d != vals {
                    let i = first_diff(&d, vals);
                    let c = cx.class.clone();
                    cx.fail_c(&c, "roundtrip", "decompress", &[("pick", &p)], format!("picked {}: expected {} got {} (index {i})", codec_name(sel), short(vals), short(&d)));
                }
            }
            Some(Err(e)) => cx.fail("roundtrip", "decompress", format!("decompress_integers(compress_integers(x)) = Err({e}) with codec {}", codec_name(sel))),
            None => {}
        }
        // truncated payloads: Err or some shorter answer, never a panic
        let full = cd.data.clone();
        let mut cd2 = cd.clone();
        for tlen in trunc_points(full.len()) {
            t.0 += 1;
            cd2.data = full[..tlen].to_vec();
            if let Some(Ok(_)) = cx.run("decompress-truncated", || TypeSpecificCompressor::decompress_integers(&cd2)) {
                t.1 += 1;
            }
        }
    }
    (Out::of(cx, t, format!("pick={pick}")), pick)
}

// ---------------------------------------------------------------- signed

pub fn chk_delta_s(vals: &[i64], case: &dyn Fn() -> J) -> Out {
    let mut cx = Cx::new("codec", "delta_s", class_s(vals), case);
    let n = vals.len();
    let mut t = (0, 0);
    'c: {
        let Some(enc) = cx.run("encode", || DeltaEncoding::encode_signed(vals)) else { break 'c };
        if let Some(d) = cx.run("decode", || enc.decode_signed()) {
            cx.eq_slices("roundtrip", "decode_signed", &d, vals);
        }
        if enc.len() != n || enc.is_empty() != (n == 0) {
            cx.fail("roundtrip", "len", format!("len()={} is_empty()={} for {n} values", enc.len(), enc.is_empty()));
        }
        let Some(b) = cx.run("to_bytes", || enc.to_bytes()) else { break 'c };
        match cx.run("from_bytes", || DeltaEncoding::from_bytes(&b)) {
            Some(Ok(e2)) => {
                if let Some(d) = cx.run("decode-after-bytes", || e2.decode_signed()) {
                    cx.eq_slices("bytes", "decode-after-bytes", &d, vals);
                }
            }
            Some(Err(e)) => cx.fail("bytes", "from_bytes", format!("from_bytes(to_bytes(x)) = Err({e})")),
            None => {}
        }
        t = check_trunc(&mut cx, &b, DeltaEncoding::from_bytes, |e| {
            let d = e.decode_signed();
            if d.len() == e.len() { Ok(()) } else { Err(format!("decode_signed().len()={} len()={}", d.len(), e.len())) }
        });
    }
    Out::of(cx, t, String::new())
}

pub fn chk_rle_s(vals: &[i64], case: &dyn Fn() -> J) -> Out {
    let mut cx = Cx::new("codec", "rle_s", class_s(vals), case);
    let mut t = (0, 0);
    let mut note = String::new();
    'c: {
        let Some(enc) = cx.run("encode", || SignedRunLengthEncoding::encode(vals)) else { break 'c };
        note = format!("runs={}", enc.run_count());
        if let Some(d) = cx.run("decode", || enc.decode()) {
            cx.eq_slices("roundtrip", "decode", &d, vals);
        }
        let Some(b) = cx.run("to_bytes", || enc.to_bytes()) else { break 'c };
        match cx.run("from_bytes", || SignedRunLengthEncoding::from_bytes(&b)) {
            Some(Ok(e2)) => {
                if let Some(d) = cx.run("decode-after-bytes", || e2.decode()) {
                    cx.eq_slices("bytes", "decode-after-bytes", &d, vals);
                }
            }
            Some(Err(e)) => cx.fail("bytes", "from_bytes", format!("from_bytes(to_bytes(x)) = Err({e})")),
            None => {}
        }
        t = check_trunc(&mut cx, &b, SignedRunLengthEncoding::from_bytes, |e| {
            if e.run_count() > 1 << 20 {
                return Ok(());
            }
            let _ = e.decode();
            Ok(())
        });
    }
    Out::of(cx, t, note)
}

pub fn chk_selector_s(vals: &[i64], case: &dyn Fn() -> J) -> (Out, String) {
    let mut cx = Cx::new("codec", "selector_s", class_s(vals), case);
    let mut pick = String::from("?");
    'c: {
        let Some(cd) = cx.run("compress", || TypeSpecificCompressor::compress_signed_integers(vals)) else { break 'c };
        pick = cd.codec.name().to_string();
        match cx.run("decompress", || TypeSpecificCompressor::decompress_integers(&cd).map(|v| v.into_iter().map(zigzag_decode).collect::<Vec<i64>>())) {
            Some(Ok(d)) => {
                if d != vals {
                    let i = first_diff(&d, vals);
                    let (c, p) = (cx.class.clone(), pick.clone());
                    cx.fail_c(&c, "roundtrip", "decompress", &[("pick", &p)], format!("picked {}: expected {} got {} (index {i})", codec_name(cd.codec), short(vals), short(&d)));
                }
            }
            Some(Err(e)) => cx.fail("roundtrip", "decompress", format!("decompress = Err({e}) with codec {}", codec_name(cd.codec))),
            None => {}
        }
    }
    (Out::of(cx, (0, 0), format!("pick={pick}")), pick)
}

/// Both zig-zag pairs (storage::delta and storage::runlength) on one signed and one unsigned value.
pub fn chk_zigzag(s: i64, u: u64, case: &dyn Fn() -> J) -> Out {
    let mut cx = Cx::new("codec", "zigzag", "scalar", case);
    if let Some(r) = cx.run("delta-zigzag", || (zigzag_decode(zigzag_encode(s)), zigzag_encode(zigzag_decode(u)))) {
        if r != (s, u) {
            cx.fail("roundtrip", "delta-zigzag", format!("({s},{u}) came back as {r:?}"));
        }
    }
    if let Some(r) = cx.run("runlength-zigzag", || (rl::zigzag_decode(rl::zigzag_encode(s)), rl::zigzag_encode(rl::zigzag_decode(u)))) {
        if r != (s, u) {
            cx.fail("roundtrip", "runlength-zigzag", format!("({s},{u}) came back as {r:?}"));
        }
    }
    if let Some(r) = cx.run("zigzag-agree", || (zigzag_encode(s), rl::zigzag_encode(s))) {
        if r.0 != r.1 {
            cx.fail("roundtrip", "zigzag-agree", format!("the two zigzag_encode disagree on {s}: {r:?}"));
        }
    }
    Out::of(cx, (0, 0), String::new())
}

// ---------------------------------------------------------------- booleans

pub fn bv_observe(cx: &mut Cx, bv: &BitVector, want: &[bool], kind_prefix: &str) {
    let n = want.len();
    let st = |s: &str| format!("{kind_prefix}{s}");
    if bv.len() != n || bv.is_empty() != (n == 0) {
        cx.fail("roundtrip", &st("len"), format!("len()={} for {n} bits", bv.len()));
    }
    if let Some(d) = cx.run(&st("to_bools"), || bv.to_bools()) {
        cx.eq_slices("roundtrip", &st("to_bools"), &d, want);
    }
    if let Some(g) = cx.run(&st("get"), || (0..n).map(|i| bv.get(i)).collect::<Vec<_>>()) {
        let w: Vec<Option<bool>> = want.iter().map(|b| Some(*b)).collect();
        cx.eq_slices("get", &st("get"), &g, &w);
    }
    for i in beyond(n) {
        if let Some(Some(v)) = cx.run(&st("get-beyond"), || bv.get(i)) {
            cx.fail("get", &st("get-beyond"), format!("get({i}) = Some({v}) for {n} bits"));
        }
    }
    if let Some(d) = cx.run(&st("iter"), || bv.iter().collect::<Vec<_>>()) {
        cx.eq_slices("iter", &st("iter"), &d, want);
    }
    let ones: Vec<usize> = (0..n).filter(|i| want[*i]).collect();
    let zeros: Vec<usize> = (0..n).filter(|i| !want[*i]).collect();
    if let Some(d) = cx.run(&st("ones_iter"), || bv.ones_iter().collect::<Vec<_>>()) {
        cx.eq_slices("iter", &st("ones_iter"), &d, &ones);
    }
    if let Some(d) = cx.run(&st("zeros_iter"), || bv.zeros_iter().collect::<Vec<_>>()) {
        cx.eq_slices("iter", &st("zeros_iter"), &d, &zeros);
    }
    if let Some(c) = cx.run(&st("count"), || (bv.count_ones(), bv.count_zeros())) {
        if c != (ones.len(), zeros.len()) {
            cx.fail("get", &st("count"), format!("(count_ones,count_zeros)={c:?} expected ({},{})", ones.len(), zeros.len()));
        }
    }
    if let Some(b) = cx.run(&st("to_bytes"), || bv.to_bytes()) {
        match cx.run(&st("from_bytes"), || BitVector::from_bytes(&b)) {
            Some(Ok(b2)) => {
                if let Some(d) = cx.run(&st("to_bools-after-bytes"), || b2.to_bools()) {
                    cx.eq_slices("bytes", &st("to_bools-after-bytes"), &d, want);
                }
                if &b2 != bv {
                    cx.fail("bytes", &st("eq-after-bytes"), "from_bytes(to_bytes(v)) != v".into());
                }
            }
            Some(Err(e)) => cx.fail("bytes", &st("from_bytes"), format!("from_bytes(to_bytes(v)) = Err({e})")),
            None => {}
        }
    }
}

pub fn chk_bitvec(vals: &[bool], case: &dyn Fn() -> J) -> Out {
    let mut cx = Cx::new("codec", "bitvec", class_b(vals), case);
    let mut t = (0, 0);
    'c: {
        let Some(bv) = cx.run("encode", || BitVector::from_bools(vals)) else { break 'c };
        bv_observe(&mut cx, &bv, vals, "");
        if let Some(c) = cx.run("collect", || vals.iter().copied().collect::<BitVector>()) {
            bv_observe(&mut cx, &c, vals, "collect/");
            if c != bv {
                cx.fail("roundtrip", "collect-eq", "collect() and from_bools() of the same bits compare unequal".into());
            }
        }
        if let Some(b) = cx.run("to_bytes", || bv.to_bytes()) {
            t = check_trunc(&mut cx, &b, BitVector::from_bytes, |e| {
                let d = e.to_bools();
                if d.len() == e.len() { Ok(()) } else { Err("to_bools().len() != len()".into()) }
            });
        }
        // selector path
        if cx.run("select", || CodecSelector::select_for_booleans(vals)) != Some(CompressionCodec::BitVector) {
            cx.fail("roundtrip", "select", "select_for_booleans did not answer BitVector".into());
        }
        if let Some(cd) = cx.run("compress", || TypeSpecificCompressor::compress_booleans(vals)) {
            match cx.run("decompress", || TypeSpecificCompressor::decompress_booleans(&cd)) {
                Some(Ok(d)) => {
                    cx.eq_slices("roundtrip", "decompress_booleans", &d, vals);
                }
                Some(Err(e)) => cx.fail("roundtrip", "decompress_booleans", format!("Err({e})")),
                None => {}
            }
        }
    }
    Out::of(cx, t, String::new())
}

// ---------------------------------------------------------------- dictionary

pub const SYMS: [&str; 5] = ["", "a", "b", "é", "ab"];

/// Symbol index -> string; -1 = null; indexes >= SYMS.len() give distinct generated strings.
pub fn sym(i: i128) -> Option<String> {
    if i < 0 {
        None
    } else if (i as usize) < SYMS.len() {
        Some(SYMS[i as usize].to_string())
    } else {
        Some(format!("s{i}"))
    }
}

fn dict_observe(cx: &mut Cx, enc: &DictionaryEncoding, vals: &[Option<String>], pre: &str) {
    let n = vals.len();
    let st = |s: &str| format!("{pre}{s}");
    let want: Vec<Option<&str>> = vals.iter().map(|v| v.as_deref()).collect();
    if enc.len() != n || enc.is_empty() != (n == 0) {
        cx.fail("roundtrip", &st("len"), format!("len()={} for {n} values", enc.len()));
    }
    if let Some(g) = cx.run(&st("get"), || (0..n).map(|i| enc.get(i).map(|s| s.to_string())).collect::<Vec<_>>()) {
        cx.eq_slices("roundtrip", &st("get"), &g, vals);
    }
    if let Some(g) = cx.run(&st("iter"), || enc.iter().map(|o| o.map(|s| s.to_string())).collect::<Vec<_>>()) {
        cx.eq_slices("iter", &st("iter"), &g, vals);
    }
    for i in beyond(n) {
        if let Some(Some(v)) = cx.run(&st("get-beyond"), || enc.get(i).map(|s| s.to_string())) {
            cx.fail("get", &st("get-beyond"), format!("get({i}) = Some({v:?}) for {n} values"));
        }
        if let Some(Some(c)) = cx.run(&st("get_code-beyond"), || enc.get_code(i)) {
            cx.fail("get", &st("get_code-beyond"), format!("get_code({i}) = Some({c}) for {n} values"));
        }
    }
    let distinct: std::collections::BTreeSet<&str> = want.iter().flatten().copied().collect();
    if enc.dictionary_size() != distinct.len() {
        cx.fail("roundtrip", &st("dictionary_size"), format!("dictionary_size()={} but {} distinct strings went in", enc.dictionary_size(), distinct.len()));
    }
    if let Some(bad) = cx.run(&st("codes"), || {
        for i in 0..n {
            if enc.is_null(i) != want[i].is_none() {
                return Some(format!("is_null({i})={} for {:?}", enc.is_null(i), want[i]));
            }
            match (enc.get_code(i), want[i]) {
                (None, None) => {}
                (Some(c), Some(s)) => {
                    if enc.dictionary().get(c as usize).map(|x| x.as_ref()) != Some(s) {
                        return Some(format!("get_code({i})={c} names {:?}, value is {s:?}", enc.dictionary().get(c as usize)));
                    }
                }
                (g, w) => return Some(format!("get_code({i})={g:?} for {w:?}")),
            }
        }
        for s in &distinct {
            match enc.encode(s) {
                Some(c) if enc.dictionary().get(c as usize).map(|x| x.as_ref()) == Some(*s) => {
                    let rows = enc.filter_by_code(|x| x == c);
                    let exp: Vec<usize> = (0..n).filter(|i| want[*i] == Some(*s)).collect();
                    if rows != exp {
                        return Some(format!("filter_by_code(code of {s:?}) = {} expected {}", short(&rows), short(&exp)));
                    }
                }
                o => return Some(format!("encode({s:?}) = {o:?}")),
            }
        }
        if enc.encode("\u{1}absent").is_some() {
            return Some("encode(absent) is Some".into());
        }
        None
    }) {
        if let Some(d) = bad {
            cx.fail("get", &st("codes"), d);
        }
    }
}

pub fn chk_dict(vals: &[Option<String>], case: &dyn Fn() -> J) -> Out {
    let nulls = vals.iter().filter(|v| v.is_none()).count();
    let class = if vals.is_empty() {
        "empty"
    } else if nulls == vals.len() {
        "all-null"
    } else if nulls > 0 {
        "with-nulls"
    } else {
        "no-nulls"
    };
    let mut cx = Cx::new("codec", "dictionary", class, case);
    'c: {
        let Some(enc) = cx.run("encode", || {
            let mut b = DictionaryBuilder::new();
            for (i, v) in vals.iter().enumerate() {
                let r = b.add_optional(v.as_deref());
                assert_eq!(r.is_some(), v.is_some(), "add_optional return at {i}");
                assert_eq!(b.len(), i + 1, "builder len");
            }
            b.build()
        }) else {
            break 'c;
        };
        dict_observe(&mut cx, &enc, vals, "");
        // builder reuse after clear(), with_capacity
        if let Some(e2) = cx.run("encode-reused-builder", || {
            let mut b = DictionaryBuilder::with_capacity(vals.len(), 4);
            b.add("junk");
            b.add_null();
            b.clear();
            for v in vals {
                b.add_optional(v.as_deref());
            }
            b.build()
        }) {
            dict_observe(&mut cx, &e2, vals, "reused/");
        }
        if nulls == 0 {
            if let Some(e3) = cx.run("into_dictionary_encoding", || vals.iter().map(|v| v.as_deref().unwrap()).into_dictionary_encoding()) {
                dict_observe(&mut cx, &e3, vals, "into/");
            }
            let strs: Vec<&str> = vals.iter().map(|v| v.as_deref().unwrap()).collect();
            cx.run("select_for_strings", || CodecSelector::select_for_strings(&strs));
        }
        // the public constructor with an explicit null bitmap
        if let Some(e4) = cx.run("new+with_nulls", || {
            let mut words = vec![0u64; (vals.len() + 63) / 64];
            for (i, v) in vals.iter().enumerate() {
                if v.is_none() {
                    words[i / 64] |= 1 << (i % 64);
                }
            }
            let e = DictionaryEncoding::new(enc.dictionary().clone(), enc.codes().to_vec());
            if nulls > 0 { e.with_nulls(words) } else { e }
        }) {
            dict_observe(&mut cx, &e4, vals, "new/");
        }
    }
    Out::of(cx, (0, 0), String::new())
}
