//! Shared plumbing for the C15 checker: boundary alphabets, input generators
//! (replayable descriptors), the per-case violation context, truncation helper.

use serde_json::{Value as J, json};
use std::collections::{BTreeMap, BTreeSet};
use vcore::{Report, Tier, Violation};

pub const AU: [u64; 14] = [
    0,
    1,
    2,
    (1 << 7) - 1,
    1 << 7,
    (1 << 8) - 1,
    1 << 8,
    (1 << 31) - 1,
    1 << 31,
    (1 << 32) - 1,
    1 << 32,
    (1 << 63) - 1,
    1 << 63,
    u64::MAX,
];
pub const AS: [i64; 9] = [0, 1, -1, i64::MIN, i64::MAX, 1 << 62, -(1 << 62), i64::MIN + 1, i64::MAX - 1];
pub const LENS: [usize; 13] = [0, 1, 62, 63, 64, 65, 66, 127, 128, 129, 1023, 1024, 1025];

/// Replayable description of one input sequence (numbers kept as i128 so the
/// same descriptor serves u64, i64, bool (0/1) and dictionary symbols).
#[derive(Clone, Debug, Hash, PartialEq, Eq)]
pub struct Gen {
    pub pat: &'static str,
    pub nums: Vec<i128>,
    pub len: usize,
    pub k: usize,
}

impl Gen {
    pub fn seq(v: Vec<i128>) -> Self {
        let len = v.len();
        Gen { pat: "seq", nums: v, len, k: 0 }
    }
    pub fn alleq(a: i128, len: usize) -> Self {
        Gen { pat: "alleq", nums: vec![a], len, k: 0 }
    }
    pub fn inc(start: i128, step: i128, len: usize) -> Self {
        Gen { pat: "inc", nums: vec![start, step], len, k: 0 }
    }
    pub fn alt(a: i128, b: i128, len: usize) -> Self {
        Gen { pat: "alt", nums: vec![a, b], len, k: 0 }
    }
    pub fn outlier(a: i128, b: i128, pos: usize, len: usize) -> Self {
        Gen { pat: "outlier", nums: vec![a, b], len, k: pos }
    }
    pub fn repeach(v: Vec<i128>, k: usize) -> Self {
        let len = v.len() * k;
        Gen { pat: "repeach", nums: v, len, k }
    }
    pub fn tile(v: Vec<i128>, k: usize) -> Self {
        let len = v.len() * k;
        Gen { pat: "tile", nums: v, len, k }
    }
    /// v_i = (i * mult) & mask
    pub fn ramp(mask: i128, mult: i128, len: usize) -> Self {
        Gen { pat: "ramp", nums: vec![mask, mult], len, k: 0 }
    }
    pub fn mat(&self) -> Vec<i128> {
        let n = &self.nums;
        match self.pat {
            "seq" => n.clone(),
            "alleq" => vec![n[0]; self.len],
            "inc" => (0..self.len).map(|i| n[0] + n[1] * i as i128).collect(),
            "alt" => (0..self.len).map(|i| n[i % 2]).collect(),
            "outlier" => (0..self.len).map(|i| if i == self.k { n[1] } else { n[0] }).collect(),
            "repeach" => n.iter().flat_map(|v| std::iter::repeat(*v).take(self.k)).collect(),
            "tile" => (0..self.k).flat_map(|_| n.iter().copied()).collect(),
            "ramp" => (0..self.len).map(|i| ((i as u128).wrapping_mul(n[1] as u128) & (n[0] as u128)) as i128).collect(),
            _ => vcore::machinery_failure("unknown generator pattern"),
        }
    }
    pub fn to_json(&self) -> J {
        json!({"pat": self.pat, "nums": self.nums.iter().map(|v| v.to_string()).collect::<Vec<_>>(), "len": self.len, "k": self.k})
    }
    pub fn from_json(j: &J) -> Gen {
        let pat = match j["pat"].as_str().unwrap_or("") {
            "seq" => "seq",
            "alleq" => "alleq",
            "inc" => "inc",
            "alt" => "alt",
            "outlier" => "outlier",
            "repeach" => "repeach",
            "tile" => "tile",
            "ramp" => "ramp",
            _ => vcore::machinery_failure("replay: unknown generator pattern"),
        };
        let nums = j["nums"]
            .as_array()
            .map(|a| a.iter().map(|x| x.as_str().and_then(|s| s.parse::<i128>().ok()).unwrap_or_else(|| vcore::machinery_failure("replay: bad number"))).collect())
            .unwrap_or_default();
        Gen { pat, nums, len: j["len"].as_u64().unwrap_or(0) as usize, k: j["k"].as_u64().unwrap_or(0) as usize }
    }
}

pub fn as_u(v: &[i128]) -> Vec<u64> {
    v.iter().map(|x| *x as u64).collect()
}
pub fn as_s(v: &[i128]) -> Vec<i64> {
    v.iter().map(|x| *x as i64).collect()
}
pub fn as_b(v: &[i128]) -> Vec<bool> {
    v.iter().map(|x| *x != 0).collect()
}

/// Value class of an unsigned input (part of the violation signature).
pub fn class_u(v: &[u64]) -> &'static str {
    if v.is_empty() {
        return "empty";
    }
    if v == [0] {
        return "single-zero";
    }
    if v.len() == 1 {
        return "single";
    }
    let m = v.iter().copied().max().unwrap_or(0);
    match 64 - m.leading_zeros() {
        0 => "all-zero",
        1..=31 => "width-1-31",
        32 => "width-32",
        33..=63 => "width-33-63",
        _ => "width-64",
    }
}

/// Value class of a signed input.
pub fn class_s(v: &[i64]) -> &'static str {
    if v.is_empty() {
        return "empty";
    }
    if v.len() == 1 {
        return "single";
    }
    if v.windows(2).any(|w| w[1].checked_sub(w[0]).is_none()) { "extreme-delta" } else { "in-range" }
}

pub fn class_b(v: &[bool]) -> &'static str {
    match v.len() {
        0 => "empty",
        n if n % 64 == 0 => "word-aligned",
        _ => "partial-word",
    }
}

/// Panic message with digit runs collapsed (so the signature names the mechanism, not the value).
pub fn norm(msg: &str) -> String {
    let mut out = String::new();
    let mut in_digits = false;
    for c in msg.chars() {
        if c.is_ascii_digit() {
            if !in_digits {
                out.push('#');
            }
            in_digits = true;
        } else {
            in_digits = false;
            out.push(c);
        }
    }
    vcore::truncate(&out, 70)
}

pub fn short<T: std::fmt::Debug>(v: &[T]) -> String {
    if v.len() <= 8 { format!("{v:?}") } else { format!("{:?}..(len {})", &v[..8], v.len()) }
}

/// First index at which two slices differ (or the shorter length).
pub fn first_diff<T: PartialEq>(a: &[T], b: &[T]) -> usize {
    a.iter().zip(b.iter()).position(|(x, y)| x != y).unwrap_or(a.len().min(b.len()))
}

/// Per-case violation collector.  A case can raise each (kind, stage, class, extra) once.
pub struct Cx<'a> {
    pub layer: &'static str,
    pub codec: &'a str,
    pub class: String,
    pub case: &'a dyn Fn() -> J,
    seen: BTreeSet<String>,
    /// history layers: report the first failing observation of a node only
    pub first_only: bool,
    pub out: Vec<Violation>,
}

impl<'a> Cx<'a> {
    pub fn new(layer: &'static str, codec: &'a str, class: &str, case: &'a dyn Fn() -> J) -> Self {
        Cx { layer, codec, class: class.to_string(), case, seen: BTreeSet::new(), first_only: false, out: vec![] }
    }
    pub fn fail_c(&mut self, class: &str, kind: &str, stage: &str, extra: &[(&str, &str)], detail: String) {
        if self.first_only && !self.out.is_empty() {
            return;
        }
        let key = format!("{kind}/{stage}/{class}/{extra:?}");
        if !self.seen.insert(key) {
            return;
        }
        let mut f: Vec<(&str, &str)> = vec![("layer", self.layer), ("codec", self.codec), ("kind", kind), ("class", class), ("stage", stage)];
        f.extend_from_slice(extra);
        self.out.push(Violation::new(&f, (self.case)(), detail));
    }
    pub fn fail(&mut self, kind: &str, stage: &str, detail: String) {
        let c = self.class.clone();
        self.fail_c(&c, kind, stage, &[], detail);
    }
    /// Run one stage of the case under catch_unwind; a panic becomes a `kind=panic` violation.
    pub fn run<T>(&mut self, stage: &str, f: impl FnOnce() -> T) -> Option<T> {
        match vcore::catch(f) {
            Ok(v) => Some(v),
            Err(m) => {
                let n = norm(&m);
                let c = self.class.clone();
                self.fail_c(&c, "panic", stage, &[("msg", &n)], format!("panic in {stage}: {m}"));
                None
            }
        }
    }
    pub fn eq_slices<T: PartialEq + std::fmt::Debug>(&mut self, kind: &str, stage: &str, got: &[T], want: &[T]) -> bool {
        if got == want {
            return true;
        }
        let i = first_diff(got, want);
        self.fail(kind, stage, format!("{stage}: expected {} got {} (first difference at index {i}: expected {:?} got {:?})", short(want), short(got), want.get(i), got.get(i)));
        false
    }
}

/// Prefix lengths at which a serialised block is truncated: every strict prefix
/// for blocks up to 1100 bytes (covers every block of <= 129 values), otherwise
/// the first 24, the last 24 and every 251st prefix length.
pub fn trunc_points(n: usize) -> Vec<usize> {
    if n <= 1100 {
        return (0..n).collect();
    }
    let mut s: BTreeSet<usize> = (0..24).collect();
    s.extend(n - 24..n);
    s.extend((0..n).step_by(251));
    s.into_iter().collect()
}

/// `from_bytes` on strict prefixes of a valid block: `Err`, or a value that
/// still decodes consistently — never a panic.  Returns (#prefixes tried, #accepted as Ok).
pub fn check_trunc<T>(cx: &mut Cx, bytes: &[u8], from: impl Fn(&[u8]) -> std::io::Result<T>, consistent: impl Fn(&T) -> Result<(), String>) -> (u64, u64) {
    let (mut tried, mut accepted) = (0, 0);
    for t in trunc_points(bytes.len()) {
        tried += 1;
        let Some(r) = cx.run("from_bytes-truncated", || from(&bytes[..t])) else { continue };
        if let Ok(v) = r {
            accepted += 1;
            match cx.run("decode-of-truncated", || consistent(&v)) {
                Some(Err(d)) => cx.fail("truncation", "decode-of-truncated", format!("prefix of {t}/{} bytes accepted and decodes inconsistently: {d}", bytes.len())),
                _ => {}
            }
        }
    }
    (tried, accepted)
}

/// One parallel shard: a report plus cheap local counters flushed at the end.
pub struct Sh {
    pub rep: Report,
    pub cnt: BTreeMap<String, u64>,
}

/// At most this many violation objects are materialised per signature and shard
/// (history layers re-hit one defect in every extension of a prefix); the rest is counted.
pub const KEEP_PER_SIG: usize = 25;

impl Sh {
    pub fn new(tier: Tier) -> Self {
        Sh { rep: Report::new("C15", tier, "exploration"), cnt: BTreeMap::new() }
    }
    pub fn count(&mut self, k: &str, n: u64) {
        if n > 0 {
            *self.cnt.entry(k.to_string()).or_insert(0) += n;
        }
    }
    pub fn eval(&mut self, codec: &str, nontrivial: Option<u64>, viols: Vec<Violation>) {
        self.rep.evaluations += 1;
        *self.cnt.entry(format!("cases.{codec}")).or_insert(0) += 1;
        if let Some(h) = nontrivial {
            self.rep.nontrivial_hash(h);
        }
        self.rep.violations.extend(viols);
    }
    pub fn finish(mut self) -> Report {
        let mut per: BTreeMap<String, usize> = BTreeMap::new();
        let mut kept = vec![];
        let mut dropped = 0u64;
        for v in std::mem::take(&mut self.rep.violations) {
            let e = per.entry(v.sig_string()).or_insert(0);
            *e += 1;
            if *e <= KEEP_PER_SIG {
                kept.push(v);
            } else {
                dropped += 1;
            }
        }
        self.rep.violations = kept;
        self.count("violating_cases_counted_but_not_materialised", dropped);
        for (k, v) in std::mem::take(&mut self.cnt) {
            self.rep.add(&k, v);
        }
        self.rep
    }
}
