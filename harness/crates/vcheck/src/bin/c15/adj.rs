//! Adjacency lists across the chunk (capacity), delta-compaction (64) and
//! cold-compression (4 hot chunks) thresholds: the multiset of live (dst, edge)
//! pairs must be the same before and after compact / compact_if_needed / freeze_all.

use crate::common::*;
use grafeo_common::types::{EdgeId, NodeId};
use grafeo_core::index::ChunkedAdjacency;
use serde_json::{Value as J, json};
use vcore::Violation;

pub const DST_PATS: [&str; 9] = ["inc0", "inc1", "zero", "const7", "desc", "alt", "big", "outlier", "hi32"];
pub const EID_PATS: [&str; 3] = ["inc", "big", "desc"];

#[derive(Clone, Debug)]
pub struct Cfg {
    pub cap: usize,
    pub k: usize,
    pub dst: &'static str,
    pub eid: &'static str,
}

#[derive(Clone, Copy, Debug, PartialEq)]
pub enum Op {
    Compact,
    CompactIfNeeded,
    Freeze,
    DelEven,
    AddZero,
    AddNine,
}
pub const MENU: [Op; 6] = [Op::Compact, Op::CompactIfNeeded, Op::Freeze, Op::DelEven, Op::AddZero, Op::AddNine];

pub fn op_str(o: &Op) -> &'static str {
    match o {
        Op::Compact => "compact",
        Op::CompactIfNeeded => "compact_if_needed",
        Op::Freeze => "freeze_all",
        Op::DelEven => "delete_every_second_live",
        Op::AddZero => "add(dst=0)",
        Op::AddNine => "add(dst=9)",
    }
}
pub fn parse_op(s: &str) -> Op {
    MENU.iter().copied().find(|o| op_str(o) == s).unwrap_or_else(|| vcore::machinery_failure("replay: bad adjacency op"))
}

fn dst_of(p: &str, i: usize, k: usize) -> u64 {
    let i64_ = i as u64;
    match p {
        "inc0" => i64_,
        "inc1" => i64_ + 1,
        "zero" => 0,
        "const7" => 7,
        "desc" => (k - 1 - i) as u64,
        "alt" => (i64_ % 2) * 1000,
        "big" => u64::MAX - i64_,
        "outlier" => {
            if i == k / 2 {
                u64::MAX
            } else {
                5
            }
        }
        "hi32" => (1u64 << 32) + 3 * i64_,
        _ => vcore::machinery_failure("bad dst pattern"),
    }
}
fn eid_of(p: &str, i: usize) -> u64 {
    match p {
        "inc" => i as u64,
        "big" => u64::MAX - i as u64,
        "desc" => 1_000_000 - i as u64,
        _ => vcore::machinery_failure("bad eid pattern"),
    }
}

impl Cfg {
    pub fn to_json(&self) -> J {
        json!({"cap": self.cap, "k": self.k, "dst": self.dst, "eid": self.eid})
    }
    pub fn from_json(j: &J) -> Cfg {
        let d = j["dst"].as_str().unwrap_or("");
        let e = j["eid"].as_str().unwrap_or("");
        Cfg {
            cap: j["cap"].as_u64().unwrap_or(64) as usize,
            k: j["k"].as_u64().unwrap_or(0) as usize,
            dst: DST_PATS.iter().copied().find(|p| *p == d).unwrap_or_else(|| vcore::machinery_failure("replay: bad dst pattern")),
            eid: EID_PATS.iter().copied().find(|p| *p == e).unwrap_or_else(|| vcore::machinery_failure("replay: bad eid pattern")),
        }
    }
}

pub struct NodeInfo {
    pub viols: Vec<Violation>,
    pub cold_entries: usize,
}

pub fn run_node(cfg: &Cfg, ops: &[Op]) -> NodeInfo {
    let case = || json!({"layer": "adjacency", "cfg": cfg.to_json(), "ops": ops.iter().map(op_str).collect::<Vec<_>>()});
    let mut cx = Cx::new("adjacency", "cold-chunk", "other", &case);
    cx.first_only = true;
    let src = NodeId::new(0);
    let other_src = NodeId::new(1);
    let adj = ChunkedAdjacency::with_chunk_capacity(cfg.cap);
    // model: insertion-ordered (dst, eid, live)
    let mut model: Vec<(u64, u64, bool)> = vec![];
    let mut deletes = 0usize;
    let mut cold = 0usize;
    let ok = cx.run("apply", || {
        adj.add_edge(other_src, NodeId::new(1), EdgeId::new(7_000_000));
        for i in 0..cfg.k {
            let (d, e) = (dst_of(cfg.dst, i, cfg.k), eid_of(cfg.eid, i));
            adj.add_edge(src, NodeId::new(d), EdgeId::new(e));
            model.push((d, e, true));
        }
        let mut next_eid = 2_000_000u64;
        for op in ops {
            match op {
                Op::Compact => adj.compact(),
                Op::CompactIfNeeded => adj.compact_if_needed(),
                Op::Freeze => adj.freeze_all(),
                Op::DelEven => {
                    let mut j = 0;
                    for m in model.iter_mut() {
                        if m.2 {
                            if j % 2 == 0 {
                                adj.mark_deleted(src, EdgeId::new(m.1));
                                m.2 = false;
                                deletes += 1;
                            }
                            j += 1;
                        }
                    }
                }
                Op::AddZero | Op::AddNine => {
                    let d = if *op == Op::AddZero { 0 } else { 9 };
                    adj.add_edge(src, NodeId::new(d), EdgeId::new(next_eid));
                    model.push((d, next_eid, true));
                    next_eid += 1;
                }
            }
        }
        cold = adj.memory_stats().cold_entries;
    });
    if ok.is_none() {
        return NodeInfo { viols: cx.out, cold_entries: 0 };
    }
    let mut want: Vec<(u64, u64)> = model.iter().filter(|m| m.2).map(|m| (m.0, m.1)).collect();
    want.sort_unstable();
    let mut want_n: Vec<u64> = want.iter().map(|p| p.0).collect();
    want_n.sort_unstable();
    let frozen = if cold > 0 { "with-cold-chunks" } else { "hot-only" };

    if let Some(mut got) = cx.run("edges_from", || adj.edges_from(src).into_iter().map(|(d, e)| (d.as_u64(), e.as_u64())).collect::<Vec<_>>()) {
        got.sort_unstable();
        if got != want {
            let missing: Vec<(u64, u64)> = multiset_minus(&want, &got);
            let extra: Vec<(u64, u64)> = multiset_minus(&got, &want);
            let class = match (missing.is_empty(), extra.is_empty()) {
                (false, true) if missing.iter().all(|p| p.0 == 0) => "lost-dst-zero-entries",
                (false, true) => "lost-entries",
                (true, false) => "extra-entries",
                _ => "changed-entries",
            };
            cx.fail_c(class, "roundtrip", "edges_from", &[("state", frozen)], format!("live pairs differ after {:?}: missing {} extra {} (expected {} pairs, got {})", ops.iter().map(op_str).collect::<Vec<_>>(), short(&missing), short(&extra), want.len(), got.len()));
        }
    }
    if let Some(mut got) = cx.run("neighbors", || adj.neighbors(src).into_iter().map(|d| d.as_u64()).collect::<Vec<_>>()) {
        got.sort_unstable();
        if got != want_n {
            let missing = multiset_minus(&want_n, &got);
            let class = if !missing.is_empty() && got.len() < want_n.len() && missing.iter().all(|d| *d == 0) { "lost-dst-zero-entries" } else { "changed-entries" };
            cx.fail_c(class, "roundtrip", "neighbors", &[("state", frozen)], format!("neighbor multiset differs: expected {} got {}", short(&want_n), short(&got)));
        }
    }
    if let Some(d) = cx.run("degree", || (adj.out_degree(src), adj.in_degree(src))) {
        if d != (want.len(), want.len()) {
            let class = if d.0 < want.len() { "lost-entries-count" } else { "extra-entries-count" };
            cx.fail_c(class, "roundtrip", "degree", &[("state", frozen)], format!("(out_degree,in_degree)={d:?} expected {}", want.len()));
        }
    }
    if let Some(o) = cx.run("other-list", || adj.edges_from(other_src)) {
        if o != vec![(NodeId::new(1), EdgeId::new(7_000_000))] {
            cx.fail_c("changed-entries", "roundtrip", "other-list", &[("state", frozen)], format!("the single-edge list of node 1 reads {o:?}"));
        }
    }
    if let Some(c) = cx.run("counts", || (adj.total_edge_count(), adj.active_edge_count())) {
        let total = model.len() + 1;
        if c != (total, total - deletes) {
            cx.fail_c("counters", "roundtrip", "counts", &[("state", frozen)], format!("(total,active)={c:?} expected ({total},{})", total - deletes));
        }
    }
    NodeInfo { viols: cx.out, cold_entries: cold }
}

fn multiset_minus<T: Ord + Clone>(a: &[T], b: &[T]) -> Vec<T> {
    // both sorted
    let (mut i, mut j, mut out) = (0, 0, vec![]);
    while i < a.len() {
        if j >= b.len() || a[i] < b[j] {
            out.push(a[i].clone());
            i += 1;
        } else if a[i] == b[j] {
            i += 1;
            j += 1;
        } else {
            j += 1;
        }
    }
    out
}

pub fn configs(thorough: bool) -> Vec<Cfg> {
    let caps: &[usize] = if thorough { &[1, 2, 3, 4, 8, 64] } else { &[1, 2, 4, 64] };
    let mut out = vec![];
    for &cap in caps {
        let mut ks: Vec<usize> = vec![0, 1, 2, cap.saturating_sub(1), cap, cap + 1, 2 * cap, 4 * cap, 4 * cap + 1, 5 * cap, 5 * cap + 1, 6 * cap + 1, 63, 64, 65, 129];
        if thorough {
            ks.extend([127, 128, 257]);
        }
        ks.sort_unstable();
        ks.dedup();
        for k in ks {
            if k > 400 {
                continue;
            }
            for dst in DST_PATS {
                for eid in EID_PATS {
                    if k == 0 && (dst != "inc0" || eid != "inc") {
                        continue;
                    }
                    out.push(Cfg { cap, k, dst, eid });
                }
            }
        }
    }
    out
}
