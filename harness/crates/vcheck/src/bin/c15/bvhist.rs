//! BitVector construction/mutation histories against a `Vec<bool>` model.
//! Checked at the node reached by the last operation only (prefixes are their own nodes).

use crate::codecs::bv_observe;
use crate::common::*;
use grafeo_core::storage::BitVector;
use serde_json::{Value as J, json};
use vcore::Violation;

#[derive(Clone, Debug, PartialEq)]
pub enum Base {
    FromBools(Gen),
    Collect(Gen),
    Filled(usize, bool),
}

#[derive(Clone, Copy, Debug, PartialEq)]
pub enum Op {
    Push(bool),
    SetFirst(bool),
    SetLast(bool),
    Not,
    /// 0 = and, 1 = or, 2 = xor; other = filled(len + extra, fill)
    Bin(u8, usize, bool),
}

pub fn menu() -> Vec<Op> {
    let mut m = vec![Op::Push(true), Op::Push(false), Op::SetFirst(true), Op::SetFirst(false), Op::SetLast(true), Op::SetLast(false), Op::Not];
    for k in 0..3u8 {
        for extra in [0usize, 65] {
            for fill in [true, false] {
                m.push(Op::Bin(k, extra, fill));
            }
        }
    }
    m
}

pub fn bases() -> Vec<Base> {
    let mut b = vec![];
    for n in [0usize, 1, 2, 63, 64, 65, 127, 128, 129] {
        b.push(Base::Filled(n, true));
        b.push(Base::Filled(n, false));
        b.push(Base::FromBools(Gen::alt(1, 0, n)));
        b.push(Base::Collect(Gen::alt(0, 1, n)));
    }
    b
}

pub fn op_str(o: &Op) -> String {
    match o {
        Op::Push(v) => format!("push:{v}"),
        Op::SetFirst(v) => format!("setfirst:{v}"),
        Op::SetLast(v) => format!("setlast:{v}"),
        Op::Not => "not".into(),
        Op::Bin(k, e, f) => format!("bin:{k}:{e}:{f}"),
    }
}
pub fn parse_op(s: &str) -> Op {
    let p: Vec<&str> = s.split(':').collect();
    let b = |x: &str| x == "true";
    match p[0] {
        "push" => Op::Push(b(p[1])),
        "setfirst" => Op::SetFirst(b(p[1])),
        "setlast" => Op::SetLast(b(p[1])),
        "not" => Op::Not,
        "bin" => Op::Bin(p[1].parse().unwrap_or(0), p[2].parse().unwrap_or(0), b(p[3])),
        _ => vcore::machinery_failure("replay: bad bitvec op"),
    }
}
pub fn base_json(b: &Base) -> J {
    match b {
        Base::FromBools(g) => json!({"from_bools": g.to_json()}),
        Base::Collect(g) => json!({"collect": g.to_json()}),
        Base::Filled(n, v) => json!({"filled": [n, v]}),
    }
}
pub fn parse_base(j: &J) -> Base {
    if let Some(g) = j.get("from_bools") {
        Base::FromBools(Gen::from_json(g))
    } else if let Some(g) = j.get("collect") {
        Base::Collect(Gen::from_json(g))
    } else {
        Base::Filled(j["filled"][0].as_u64().unwrap_or(0) as usize, j["filled"][1].as_bool().unwrap_or(false))
    }
}

fn padding_dirty(bv: &BitVector) -> bool {
    let (len, data) = (bv.len(), bv.data());
    let full = len / 64;
    let rem = len % 64;
    for (i, w) in data.iter().enumerate() {
        if i > full || (i == full && rem == 0) {
            if *w != 0 {
                return true;
            }
        } else if i == full && (*w >> rem) != 0 {
            return true;
        }
    }
    false
}

fn apply(bv: BitVector, model: &mut Vec<bool>, op: &Op) -> Option<BitVector> {
    let mut bv = bv;
    match *op {
        Op::Push(v) => {
            bv.push(v);
            model.push(v);
        }
        Op::SetFirst(v) => {
            if model.is_empty() {
                return None;
            }
            bv.set(0, v);
            model[0] = v;
        }
        Op::SetLast(v) => {
            if model.is_empty() {
                return None;
            }
            let i = model.len() - 1;
            bv.set(i, v);
            model[i] = v;
        }
        Op::Not => {
            bv = bv.not();
            for b in model.iter_mut() {
                *b = !*b;
            }
        }
        Op::Bin(k, extra, fill) => {
            let other = BitVector::filled(model.len() + extra, fill);
            bv = match k {
                0 => bv.and(&other),
                1 => bv.or(&other),
                _ => bv.xor(&other),
            };
            // result has the length of the shorter vector (documented) = ours
            for b in model.iter_mut() {
                *b = match k {
                    0 => *b & fill,
                    1 => *b | fill,
                    _ => *b ^ fill,
                };
            }
        }
    }
    Some(bv)
}

/// Runs one history; returns None when an operation's precondition fails (set on an empty vector).
pub fn run_node(base: &Base, ops: &[Op]) -> Option<Vec<Violation>> {
    let case = || json!({"layer": "bitvec-history", "base": base_json(base), "ops": ops.iter().map(op_str).collect::<Vec<_>>()});
    let mut cx = Cx::new("bitvec-history", "bitvec", "clean-padding", &case);
    cx.first_only = true;
    let mut applicable = true;
    let res = cx.run("history", || {
        let (mut bv, mut model) = match base {
            Base::FromBools(g) => {
                let b = as_b(&g.mat());
                (BitVector::from_bools(&b), b)
            }
            Base::Collect(g) => {
                let b = as_b(&g.mat());
                (b.iter().copied().collect::<BitVector>(), b)
            }
            Base::Filled(n, v) => (BitVector::filled(*n, *v), vec![*v; *n]),
        };
        let mut dirty_before_last = false;
        for (i, op) in ops.iter().enumerate() {
            if i + 1 == ops.len() {
                dirty_before_last = padding_dirty(&bv);
            }
            match apply(bv, &mut model, op) {
                Some(n) => bv = n,
                None => return None,
            }
        }
        Some((bv, model, dirty_before_last))
    });
    match res {
        Some(Some((bv, model, dirty))) => {
            let last = ops.last().map(|o| op_str(o)).unwrap_or_else(|| "construct".into());
            let last_kind = last.split(':').next().unwrap_or("").to_string();
            cx.class = format!("{}-then-{}", if dirty { "dirty-padding" } else { "clean-padding" }, if let Some(Op::Push(v)) = ops.last() { format!("push-{v}") } else { last_kind });
            bv_observe(&mut cx, &bv, &model, "");
        }
        Some(None) => applicable = false,
        None => {}
    }
    if applicable { Some(cx.out) } else { None }
}
