//! C15 — every compression codec is lossless (DESIGN.md §3/C15, engine E3 ENUM).
//!
//! Bounded-exhaustive enumeration of input sequences (boundary alphabets, pattern x
//! length families, every bit width) through every codec of `grafeo_core::storage`,
//! plus history enumeration for BitVector mutation, compressed property columns and
//! cold adjacency chunks.  Oracles: round-trip identities against the input itself.
//!
//! Not covered (code not compiled in the harness build): `storage::epoch_store`
//! (feature `tiered-storage`), `storage::succinct::*` (feature `succinct-indexes`).

mod adj;
mod bvhist;
mod codecs;
mod common;
mod prop;

use codecs::*;
use common::*;
use serde_json::{Value as J, json};
use vcore::{Report, Tier, Violation};

fn main() {
    std::process::exit(run(vcheck::entry()));
}

#[derive(Clone, Copy, PartialEq, Debug)]
enum Dom {
    U,
    S,
    B,
    D, // dictionary symbols (-1 = null)
}

enum Item {
    /// all sequences of length `len` over the domain alphabet starting with `prefix`
    Seq { dom: Dom, len: usize, prefix: Vec<usize> },
    /// explicit generator list (families, expansions)
    Gens { dom: Dom, gens: Vec<Gen>, all_widths: Option<u8> },
    Zigzag,
    BvHist { base: bvhist::Base, depth: usize },
    Prop { pop: prop::Pop, depth: usize },
    Adj { cfg: adj::Cfg, depth: usize },
}

fn alphabet(dom: Dom) -> Vec<i128> {
    match dom {
        Dom::U => AU.iter().map(|v| *v as i128).collect(),
        Dom::S => AS.iter().map(|v| *v as i128).collect(),
        Dom::B => vec![0, 1],
        Dom::D => vec![-1, 0, 1, 2, 3, 4],
    }
}

fn dom_str(d: Dom) -> &'static str {
    match d {
        Dom::U => "u",
        Dom::S => "s",
        Dom::B => "b",
        Dom::D => "d",
    }
}

fn nontrivial_hash(codec: &str, m: &[i128]) -> Option<u64> {
    if m.len() >= 2 && m.iter().any(|v| *v != 0) { Some(vcore::hash_of(&(codec, m))) } else { None }
}

fn widths_for(vals: &[u64]) -> Vec<u8> {
    let need = vals.iter().copied().max().map(|m| 64 - m.leading_zeros() as u8).unwrap_or(0);
    let mut w: Vec<u8> = [need, need + 1, 31, 32, 33, 63, 64].into_iter().filter(|x| *x >= need && *x <= 64).collect();
    w.sort_unstable();
    w.dedup();
    w
}

fn take(sh: &mut Sh, codec: &str, m: &[i128], o: Out) {
    if codec.starts_with("selector") {
        sh.count("selector_truncated_payloads_tried", o.trunc_tried);
        sh.count("selector_truncated_payloads_decoded_without_error", o.trunc_accepted);
    } else {
        sh.count("truncations_tried", o.trunc_tried);
        sh.count("truncations_accepted_as_ok", o.trunc_accepted);
    }
    sh.eval(codec, nontrivial_hash(codec, m), o.viols);
}

/// Runs one input through every codec of its domain.
fn run_gen(sh: &mut Sh, dom: Dom, g: &Gen, all_widths: Option<u8>) {
    let m = g.mat();
    let case_for = |codec: &'static str, width: Option<u8>| move || json!({"layer": "codec", "codec": codec, "dom": dom_str(dom), "gen": g.to_json(), "width": width});
    match dom {
        Dom::U => {
            let v = as_u(&m);
            take(sh, "bitpack", &m, chk_bitpack(&v, None, &case_for("bitpack", None)));
            let ws = match all_widths {
                Some(w) => vec![w],
                None => widths_for(&v),
            };
            for w in ws {
                take(sh, "bitpack_w", &m, chk_bitpack(&v, Some(w), &case_for("bitpack_w", Some(w))));
            }
            take(sh, "rle_u", &m, chk_rle_u(&v, &case_for("rle_u", None)));
            let (o, pick) = chk_selector_u(&v, &case_for("selector_u", None));
            sh.count(&format!("selector_u.pick.{pick}"), 1);
            take(sh, "selector_u", &m, o);
            if v.windows(2).all(|w| w[0] <= w[1]) {
                take(sh, "delta_u", &m, chk_delta_u(&v, &case_for("delta_u", None)));
                take(sh, "delta_bitpacked", &m, chk_dbp(&v, &case_for("delta_bitpacked", None)));
            }
        }
        Dom::S => {
            let v = as_s(&m);
            take(sh, "delta_s", &m, chk_delta_s(&v, &case_for("delta_s", None)));
            take(sh, "rle_s", &m, chk_rle_s(&v, &case_for("rle_s", None)));
            let (o, pick) = chk_selector_s(&v, &case_for("selector_s", None));
            sh.count(&format!("selector_s.pick.{pick}"), 1);
            take(sh, "selector_s", &m, o);
        }
        Dom::B => {
            let v = as_b(&m);
            take(sh, "bitvec", &m, chk_bitvec(&v, &case_for("bitvec", None)));
        }
        Dom::D => {
            let v: Vec<Option<String>> = m.iter().map(|i| sym(*i)).collect();
            let o = chk_dict(&v, &case_for("dictionary", None));
            sh.rep.evaluations += 1;
            sh.count("cases.dictionary", 1);
            if m.len() >= 2 {
                sh.rep.nontrivial_hash(vcore::hash_of(&("dictionary", &m)));
            }
            sh.rep.violations.extend(o.viols);
        }
    }
}

fn weight(it: &Item) -> u64 {
    match it {
        Item::Seq { dom, len, prefix } => (alphabet(*dom).len() as u64).pow((len - prefix.len()) as u32) * (*len as u64 + 1) * 8,
        Item::Gens { gens, .. } => gens.iter().map(|g| 30 * g.len as u64 + 30).sum(),
        Item::Zigzag => 1,
        Item::BvHist { depth, .. } => 19u64.pow(*depth as u32) * 40,
        Item::Prop { pop, depth } => 9u64.pow(*depth as u32) * (pop.n as u64 + 4) * 8,
        Item::Adj { cfg, depth } => 6u64.pow(*depth as u32) * (cfg.k as u64 + 10) * 4,
    }
}

fn run_item(it: &Item, tier: Tier) -> Report {
    let mut sh = Sh::new(tier);
    match it {
        Item::Seq { dom, len, prefix } => {
            let a = alphabet(*dom);
            let free = len - prefix.len();
            let total = a.len().pow(free as u32);
            for mut code in 0..total {
                let mut tail = vec![0i128; free];
                for p in (0..free).rev() {
                    tail[p] = a[code % a.len()];
                    code /= a.len();
                }
                let v: Vec<i128> = prefix.iter().map(|i| a[*i]).chain(tail).collect();
                run_gen(&mut sh, *dom, &Gen::seq(v), None);
            }
        }
        Item::Gens { dom, gens, all_widths } => {
            for g in gens {
                run_gen(&mut sh, *dom, g, *all_widths);
            }
        }
        Item::Zigzag => {
            let mut ss: Vec<i64> = AS.to_vec();
            ss.extend([2, -2, 63, -64, i32::MAX as i64, i32::MIN as i64]);
            for (i, s) in ss.iter().enumerate() {
                for (j, u) in AU.iter().enumerate() {
                    let case = || json!({"layer": "codec", "codec": "zigzag", "s": s.to_string(), "u": u.to_string()});
                    let o = chk_zigzag(*s, *u, &case);
                    sh.eval("zigzag", Some(vcore::hash_of(&("zigzag", i, j))), o.viols);
                }
            }
        }
        Item::BvHist { base, depth } => {
            let menu = bvhist::menu();
            let mut stack: std::collections::VecDeque<Vec<bvhist::Op>> = [vec![]].into();
            while let Some(h) = stack.pop_front() {
                let Some(v) = bvhist::run_node(base, &h) else { continue };
                let bad = !v.is_empty();
                sh.eval("bitvec-history", Some(vcore::hash_of(&format!("{base:?}{h:?}"))), v);
                // no expansion below a violating node (the model no longer describes the object)
                if h.len() < *depth && !bad {
                    for op in menu.iter() {
                        let mut h2 = h.clone();
                        h2.push(*op);
                        stack.push_back(h2);
                    }
                }
            }
        }
        Item::Prop { pop, depth } => {
            let menu = pop.menu();
            let mut stack: std::collections::VecDeque<Vec<usize>> = [vec![]].into();
            while let Some(h) = stack.pop_front() {
                let evs: Vec<prop::Ev> = h.iter().map(|i| menu[*i].clone()).collect();
                let info = prop::run_node(pop, &evs);
                sh.rep.evaluations += 1;
                sh.count("cases.property", 1);
                if info.ever_compressed {
                    sh.count("property.states_with_compression_history", 1);
                    sh.rep.nontrivial_hash(vcore::hash_of(&format!("{}{h:?}", pop.to_json())));
                }
                if let Some(c) = &info.compressed_with {
                    sh.count(&format!("property.checked_while_compressed.{c}"), 1);
                }
                sh.rep.violations.extend(info.viols);
                if h.len() < *depth {
                    for i in 0..menu.len() {
                        let mut h2 = h.clone();
                        h2.push(i);
                        stack.push_back(h2);
                    }
                }
            }
        }
        Item::Adj { cfg, depth } => {
            let mut stack: std::collections::VecDeque<Vec<adj::Op>> = [vec![]].into();
            while let Some(h) = stack.pop_front() {
                let info = adj::run_node(cfg, &h);
                sh.rep.evaluations += 1;
                sh.count("cases.adjacency", 1);
                if info.cold_entries > 0 {
                    sh.count("adjacency.states_with_cold_chunks", 1);
                    sh.rep.nontrivial_hash(vcore::hash_of(&format!("{}{h:?}", cfg.to_json())));
                }
                let bad = !info.viols.is_empty();
                sh.rep.violations.extend(info.viols);
                if h.len() < *depth && !bad {
                    for op in adj::MENU.iter() {
                        let mut h2 = h.clone();
                        h2.push(*op);
                        stack.push_back(h2);
                    }
                }
            }
        }
    }
    sh.finish()
}

// ------------------------------------------------------------------ families

fn positions(len: usize) -> Vec<usize> {
    let mut p: Vec<usize> = [0, 1, len / 2, 63, 64, len.saturating_sub(2), len.saturating_sub(1)].into_iter().filter(|x| *x < len).collect();
    p.sort_unstable();
    p.dedup();
    p
}

fn family(dom: Dom, len: usize, lo: i128, hi: i128, steps: &[i128]) -> Vec<Gen> {
    let a = alphabet(dom);
    if len == 0 {
        return vec![Gen::alleq(a[0], 0)];
    }
    let mut out = vec![];
    for x in &a {
        out.push(Gen::alleq(*x, len));
    }
    if len == 1 {
        return out;
    }
    for x in &a {
        for s in steps {
            let last = x + s * (len as i128 - 1);
            if last >= lo && last <= hi {
                out.push(Gen::inc(*x, *s, len));
            }
            // the same ramp ending exactly at the upper / lower bound
            if *s > 0 {
                let start = hi - s * (len as i128 - 1);
                if start >= lo && x == &a[0] {
                    out.push(Gen::inc(start, *s, len));
                }
            } else {
                let start = lo - s * (len as i128 - 1);
                if start <= hi && x == &a[0] {
                    out.push(Gen::inc(start, *s, len));
                }
            }
        }
    }
    for x in &a {
        for y in &a {
            if x != y {
                out.push(Gen::alt(*x, *y, len));
                for p in positions(len) {
                    out.push(Gen::outlier(*x, *y, p, len));
                }
            }
        }
    }
    out
}

fn width_family(w: u8) -> Vec<Gen> {
    let maxv: i128 = if w == 0 { 0 } else { (1i128 << w) - 1 };
    let top: i128 = if w == 0 { 0 } else { 1i128 << (w - 1) };
    let vpw = if w == 0 { 64 } else { 64 / w as usize };
    let mut lens: Vec<usize> = vec![0, 1, 2, vpw.saturating_sub(1), vpw, vpw + 1, 2 * vpw - 1, 2 * vpw, 2 * vpw + 1, 63, 64, 65, 127, 128, 129];
    lens.sort_unstable();
    lens.dedup();
    let mut out = vec![];
    for len in lens {
        out.push(Gen::alleq(maxv, len));
        if len == 0 {
            continue;
        }
        out.push(Gen::alleq(top, len));
        out.push(Gen::alleq(0, len));
        out.push(Gen::alt(0, maxv, len));
        out.push(Gen::alt(maxv, top, len));
        out.push(Gen::ramp(maxv, 0x9E37_79B9_7F4A_7C15, len));
        out.push(Gen::ramp(maxv, 1, len));
        let mut ps = vec![0, vpw.saturating_sub(1), vpw, len - 1];
        ps.retain(|p| *p < len);
        ps.sort_unstable();
        ps.dedup();
        for p in ps {
            out.push(Gen::outlier(0, maxv, p, len));
            out.push(Gen::outlier(maxv, 0, p, len));
        }
    }
    out
}

fn expansions(dom: Dom, first: usize, max_len: usize) -> Vec<Gen> {
    let a = alphabet(dom);
    let mut out = vec![];
    let mut seqs: Vec<Vec<i128>> = vec![vec![a[first]]];
    let mut frontier = seqs.clone();
    for _ in 1..max_len {
        let mut next = vec![];
        for s in &frontier {
            for x in &a {
                let mut t = s.clone();
                t.push(*x);
                next.push(t);
            }
        }
        seqs.extend(next.iter().cloned());
        frontier = next;
    }
    for s in seqs {
        for k in [2usize, 3, 4, 8] {
            if s.len() * k >= 8 && s.len() * k <= 40 {
                out.push(Gen::repeach(s.clone(), k));
                if s.len() > 1 {
                    out.push(Gen::tile(s.clone(), k));
                }
            }
        }
    }
    out
}

fn chunked(dom: Dom, gens: Vec<Gen>, per: usize, all_widths: Option<u8>, items: &mut Vec<Item>) {
    let mut cur = vec![];
    for g in gens {
        cur.push(g);
        if cur.len() == per {
            items.push(Item::Gens { dom, gens: std::mem::take(&mut cur), all_widths });
        }
    }
    if !cur.is_empty() {
        items.push(Item::Gens { dom, gens: cur, all_widths });
    }
}

struct Bounds {
    seq_u: usize,
    seq_s: usize,
    seq_b: usize,
    seq_d: usize,
    exp: usize,
    bv_depth: usize,
    prop_depth: usize,
    adj_depth: usize,
}

fn build_items(tier: Tier, b: &Bounds) -> Vec<Item> {
    let thorough = tier == Tier::Thorough;
    // simplest first: the first counterexample of a signature is the smallest the enumeration has
    let mut items = vec![Item::Zigzag];
    for (dom, max) in [(Dom::U, b.seq_u), (Dom::S, b.seq_s), (Dom::B, b.seq_b), (Dom::D, b.seq_d)] {
        let a = alphabet(dom).len();
        for len in 0..=max {
            let plen = if dom == Dom::B { 0 } else { len.min(2) };
            for p in vcore::sequences(a, plen) {
                items.push(Item::Seq { dom, len, prefix: p });
            }
        }
    }
    for dom in [Dom::U, Dom::S] {
        for first in 0..alphabet(dom).len() {
            chunked(dom, expansions(dom, first, b.exp), 400, None, &mut items);
        }
    }
    let steps_u: Vec<i128> = vec![1, 2, 127, 128, 255, 256, 1 << 31, 1 << 32, 1 << 53];
    let steps_s: Vec<i128> = vec![1, 2, 1 << 31, 1 << 62, -1, -(1 << 62)];
    for &len in LENS.iter() {
        let per = if len > 200 { 12 } else { 120 };
        chunked(Dom::U, family(Dom::U, len, 0, u64::MAX as i128, &steps_u), per, None, &mut items);
        chunked(Dom::S, family(Dom::S, len, i64::MIN as i128, i64::MAX as i128, &steps_s), per, None, &mut items);
        chunked(Dom::B, family(Dom::B, len, 0, 1, &[]), per, None, &mut items);
        // dictionary: symbols incl. null; "inc" = all-distinct strings
        let mut dg = family(Dom::D, len, -1, 4, &[]);
        if len > 1 {
            dg.push(Gen::inc(5, 1, len));
            dg.push(Gen::outlier(-1, 7, len - 1, len));
        }
        chunked(Dom::D, dg, per, None, &mut items);
    }
    for w in 0..=64u8 {
        chunked(Dom::U, width_family(w), 200, Some(w), &mut items);
    }
    for base in bvhist::bases() {
        items.push(Item::BvHist { base, depth: b.bv_depth });
    }
    for pop in prop::populations(thorough) {
        items.push(Item::Prop { pop, depth: b.prop_depth });
    }
    for cfg in adj::configs(thorough) {
        items.push(Item::Adj { cfg, depth: b.adj_depth });
    }
    items
}

// ------------------------------------------------------------------ replay

fn replay_once(case: &J) -> Vec<Violation> {
    let layer = case["layer"].as_str().unwrap_or("");
    match layer {
        "codec" => {
            let codec = case["codec"].as_str().unwrap_or("").to_string();
            let c = case.clone();
            let cf = move || c.clone();
            if codec == "zigzag" {
                let s: i64 = case["s"].as_str().and_then(|x| x.parse().ok()).unwrap_or(0);
                let u: u64 = case["u"].as_str().and_then(|x| x.parse().ok()).unwrap_or(0);
                return chk_zigzag(s, u, &cf).viols;
            }
            let g = Gen::from_json(&case["gen"]);
            let m = g.mat();
            let width = case["width"].as_u64().map(|w| w as u8);
            match codec.as_str() {
                "bitpack" => chk_bitpack(&as_u(&m), None, &cf).viols,
                "bitpack_w" => chk_bitpack(&as_u(&m), width, &cf).viols,
                "delta_u" => chk_delta_u(&as_u(&m), &cf).viols,
                "delta_bitpacked" => chk_dbp(&as_u(&m), &cf).viols,
                "rle_u" => chk_rle_u(&as_u(&m), &cf).viols,
                "selector_u" => chk_selector_u(&as_u(&m), &cf).0.viols,
                "delta_s" => chk_delta_s(&as_s(&m), &cf).viols,
                "rle_s" => chk_rle_s(&as_s(&m), &cf).viols,
                "selector_s" => chk_selector_s(&as_s(&m), &cf).0.viols,
                "bitvec" => chk_bitvec(&as_b(&m), &cf).viols,
                "dictionary" => chk_dict(&m.iter().map(|i| sym(*i)).collect::<Vec<_>>(), &cf).viols,
                _ => vcore::machinery_failure("replay: unknown codec"),
            }
        }
        "bitvec-history" => {
            let base = bvhist::parse_base(&case["base"]);
            let ops: Vec<bvhist::Op> = case["ops"].as_array().map(|a| a.iter().filter_map(|s| s.as_str()).map(bvhist::parse_op).collect()).unwrap_or_default();
            bvhist::run_node(&base, &ops).unwrap_or_default()
        }
        "property" => {
            let pop = prop::Pop::from_json(&case["pop"]);
            let evs: Vec<prop::Ev> = case["events"].as_array().map(|a| a.iter().map(prop::parse_ev).collect()).unwrap_or_default();
            prop::run_node(&pop, &evs).viols
        }
        "adjacency" => {
            let cfg = adj::Cfg::from_json(&case["cfg"]);
            let ops: Vec<adj::Op> = case["ops"].as_array().map(|a| a.iter().filter_map(|s| s.as_str()).map(adj::parse_op).collect()).unwrap_or_default();
            adj::run_node(&cfg, &ops).viols
        }
        _ => vcore::machinery_failure("replay: unknown layer"),
    }
}

// ------------------------------------------------------------------ samples

fn samples(rep: &mut Report) {
    rep.max_samples = 10;
    let noop = || J::Null;
    let g = Gen::seq(vec![0, 255, 1 << 32, u64::MAX as i128]);
    let o = chk_bitpack(&as_u(&g.mat()), None, &noop);
    rep.sample(json!({"codec": "bitpack", "input": g.to_json(), "observed": o.note, "violations": o.viols.len()}));
    let g = Gen::inc(u64::MAX as i128 - 1024, 1, 1025);
    let o = chk_dbp(&as_u(&g.mat()), &noop);
    rep.sample(json!({"codec": "delta_bitpacked", "input": g.to_json(), "observed": o.note, "violations": o.viols.len()}));
    let g = Gen::repeach(vec![1 << 63, 0, 1 << 63], 4);
    let (o, _) = chk_selector_u(&as_u(&g.mat()), &noop);
    rep.sample(json!({"codec": "selector_u", "input": g.to_json(), "observed": o.note, "violations": o.viols.len()}));
    let g = Gen::alt(i64::MIN as i128, i64::MAX as i128, 64);
    let o = chk_delta_s(&as_s(&g.mat()), &noop);
    rep.sample(json!({"codec": "delta_s", "input": g.to_json(), "violations": o.viols.iter().map(|v| v.sig_string()).collect::<Vec<_>>()}));
    let g = Gen::outlier(1, 0, 64, 65);
    let o = chk_bitvec(&as_b(&g.mat()), &noop);
    rep.sample(json!({"codec": "bitvec", "input": g.to_json(), "truncations_tried": o.trunc_tried, "violations": o.viols.len()}));
    let g = Gen::outlier(1, -1, 64, 129);
    let o = chk_dict(&g.mat().iter().map(|i| sym(*i)).collect::<Vec<_>>(), &noop);
    rep.sample(json!({"codec": "dictionary", "input": g.to_json(), "violations": o.viols.len()}));
    let pop = prop::Pop { n: 9, base: 0, ty: "int", r#gen: Gen::inc(10, 1, 9), minor: 0, minor_ty: "null" };
    let info = prop::run_node(&pop, &[prop::Ev::F, prop::Ev::D]);
    rep.sample(json!({"layer": "property", "pop": pop.to_json(), "events": ["F", "D"], "ever_compressed": info.ever_compressed, "violations": info.viols.len()}));
    let cfg = adj::Cfg { cap: 64, k: 5 * 64 + 1, dst: "hi32", eid: "big" };
    let info = adj::run_node(&cfg, &[adj::Op::Compact, adj::Op::DelEven, adj::Op::Freeze]);
    rep.sample(json!({"layer": "adjacency", "cfg": cfg.to_json(), "ops": ["compact", "delete_every_second_live", "freeze_all"], "cold_entries": info.cold_entries, "violations": info.viols.len()}));
}

fn run(args: vcore::Args) -> i32 {
    if let Some(p) = args.replay.as_deref() {
        let case = vcore::read_replay_case(p);
        let v1 = replay_once(&case);
        let v2 = replay_once(&case);
        let s1: Vec<String> = v1.iter().map(|v| v.sig_string()).collect();
        let s2: Vec<String> = v2.iter().map(|v| v.sig_string()).collect();
        if s1 != s2 {
            vcore::machinery_failure("replaying the same case twice gave different observations");
        }
        return vcheck::replay_report("C15", v1);
    }
    let tier = args.tier;
    let b = Bounds {
        seq_u: tier.pick(4, 5),
        seq_s: tier.pick(4, 6),
        seq_b: tier.pick(10, 14),
        seq_d: tier.pick(4, 6),
        exp: tier.pick(2, 3),
        bv_depth: tier.pick(3, 4),
        prop_depth: tier.pick(3, 4),
        adj_depth: tier.pick(3, 4),
    };
    let mut rep = Report::new("C15", tier, "exploration");
    rep.rule = "every input of an explicitly listed finite product is pushed through every codec that admits it (sorted-only codecs get the non-decreasing inputs); a case = (codec, input) or one history node of the bitvec / property-column / adjacency layers, checked at the state its last event reaches; distinct = hash of (codec, input) resp. (configuration, history); non-trivial = input of >= 2 values not all zero, resp. a history whose column was compressed / whose list has cold chunks".into();
    let items = build_items(tier, &b);
    let n_items = items.len();
    // execute heaviest items first (load balance), merge in the simplest-first item order
    let mut order: Vec<usize> = (0..n_items).collect();
    order.sort_by_key(|i| std::cmp::Reverse(weight(&items[*i])));
    let done = vcore::par_map(&order, vcore::cores(), |_, i| run_item(&items[*i], tier));
    let mut slots: Vec<Option<Report>> = (0..n_items).map(|_| None).collect();
    for (i, r) in order.iter().zip(done) {
        slots[*i] = Some(r);
    }
    for s in slots.into_iter().flatten() {
        rep.merge(s);
    }
    samples(&mut rep);
    rep.set(
        "bounds",
        json!({
            "alphabet_u": AU.iter().map(|v| v.to_string()).collect::<Vec<_>>(),
            "alphabet_s": AS.iter().map(|v| v.to_string()).collect::<Vec<_>>(),
            "alphabet_dictionary": ["<null>", "", "a", "b", "é", "ab"],
            "max_seq_len": {"u": b.seq_u, "s": b.seq_s, "bool": b.seq_b, "dictionary": b.seq_d},
            "family_lengths": LENS,
            "family_patterns": ["alleq", "inc (strictly monotone, every alphabet start x step that stays in range, plus ramps ending at the type bound)", "alt", "outlier at positions {0,1,len/2,63,64,len-2,len-1}"],
            "bitpack_widths": "0..=64, each with lengths {0,1,2,vpw-1,vpw,vpw+1,2vpw-1,2vpw,2vpw+1,63,64,65,127,128,129} x 7 patterns + outliers; sequences additionally at widths {need,need+1,31,32,33,63,64}",
            "selector_expansions": format!("every sequence of length <= {} over the alphabet, each element repeated / the sequence tiled k in {{2,3,4,8}} times (8 <= length <= 40)", b.exp),
            "truncation": "every strict prefix for blocks <= 1100 bytes; first 24, last 24 and every 251st prefix length above",
            "bitvec_history": {"bases": bvhist::bases().len(), "menu": bvhist::menu().len(), "depth": b.bv_depth},
            "property": {"populations": prop::populations(tier == Tier::Thorough).len(), "menu": 9, "depth": b.prop_depth, "modes": "default (None) + force_compress_all / compress_all / enable_compression(key, None); CompressionMode::Auto/Eager are not nameable from outside grafeo-core"},
            "adjacency": {"configs": adj::configs(tier == Tier::Thorough).len(), "menu": adj::MENU.len(), "depth": b.adj_depth},
            "violation_objects_per_signature_and_shard": KEEP_PER_SIG,
            "work_items": n_items,
        }),
    );
    rep.assumptions.push("storage::epoch_store (feature tiered-storage) and storage::succinct (feature succinct-indexes) are not compiled in the harness build and are not checked".into());
    rep.assumptions.push("CompressionMode::Auto/Eager cannot be selected from outside grafeo-core (enum not re-exported); columns are compressed through force_compress_all and decompressed through enable_compression(key, Default::default())".into());
    rep.assumptions.push("unsigned delta and delta+bit-packing receive non-decreasing input only (documented precondition); pack_with_bits receives values that fit".into());
    rep.finish()
}
