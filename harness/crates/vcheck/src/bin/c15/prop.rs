//! Property columns: the same set/remove/get history must read the same whether or
//! not the column was compressed (force_compress_all / compress_all) or decompressed
//! again (enable_compression(key, <default = None>)).  Reference: a BTreeMap.
//!
//! `CompressionMode` is not nameable outside grafeo-core (`graph::lpg::property` is a
//! private module and the enum is not re-exported), so `Auto`/`Eager` cannot be selected
//! from here; `Default::default()` (= None) is the only obtainable value.

use crate::common::*;
use grafeo_common::types::{NodeId, PropertyKey, Value};
use grafeo_core::graph::lpg::PropertyStorage;
use serde_json::{Value as J, json};
use std::collections::{BTreeMap, BTreeSet};
use vcore::Violation;

pub const STRS: [&str; 4] = ["alpha-alpha-alpha-alpha-alpha", "beta-beta-beta-beta-beta-beta", "c", ""];

#[derive(Clone, Debug)]
pub struct Pop {
    pub n: usize,
    pub base: u64,
    pub ty: &'static str, // int | str | bool
    pub r#gen: Gen,
    pub minor: usize,
    pub minor_ty: &'static str, // float | null | str | int
}

fn typed(ty: &str, v: i128, i: usize) -> Value {
    match ty {
        "int" => Value::Int64(v as i64),
        "str" => Value::from(STRS[(v.rem_euclid(STRS.len() as i128)) as usize]),
        "bool" => Value::Bool(v != 0),
        "float" => Value::Float64(i as f64 + 0.5),
        "null" => Value::Null,
        _ => vcore::machinery_failure("bad value type"),
    }
}

impl Pop {
    pub fn values(&self) -> Vec<(u64, Value)> {
        let m = self.r#gen.mat();
        (0..self.n)
            .map(|i| {
                let v = m.get(i).copied().unwrap_or(0);
                let ty = if i >= self.n - self.minor.min(self.n) { self.minor_ty } else { self.ty };
                (self.base + i as u64, typed(ty, v, i))
            })
            .collect()
    }
    pub fn to_json(&self) -> J {
        json!({"n": self.n, "base": self.base.to_string(), "ty": self.ty, "gen": self.r#gen.to_json(), "minor": self.minor, "minor_ty": self.minor_ty})
    }
    pub fn from_json(j: &J) -> Pop {
        let st = |s: &str| -> &'static str {
            match s {
                "int" => "int",
                "str" => "str",
                "bool" => "bool",
                "float" => "float",
                "null" => "null",
                _ => vcore::machinery_failure("replay: bad type"),
            }
        };
        Pop {
            n: j["n"].as_u64().unwrap_or(0) as usize,
            base: j["base"].as_str().and_then(|s| s.parse().ok()).unwrap_or(0),
            ty: st(j["ty"].as_str().unwrap_or("")),
            r#gen: Gen::from_json(&j["gen"]),
            minor: j["minor"].as_u64().unwrap_or(0) as usize,
            minor_ty: st(j["minor_ty"].as_str().unwrap_or("")),
        }
    }
    pub fn fresh(&self) -> Value {
        match self.ty {
            "int" => Value::Int64(424_242),
            "str" => Value::from("gamma-gamma-gamma-gamma-gamma"),
            _ => {
                let first = self.r#gen.mat().first().copied().unwrap_or(0) != 0;
                Value::Bool(!first)
            }
        }
    }
    pub fn menu(&self) -> Vec<Ev> {
        let (b, n) = (self.base, self.n as u64);
        vec![
            Ev::F,
            Ev::C,
            Ev::D,
            Ev::Set(b, self.fresh()),
            Ev::Set(b, Value::Float64(2.5)),
            Ev::Set(b + n, self.fresh()),
            Ev::Rm(b),
            Ev::Rm(b + n - 1),
            Ev::RmAll(b + n / 2),
        ]
    }
}

#[derive(Clone, Debug)]
pub enum Ev {
    /// force_compress_all
    F,
    /// compress_all (a no-op under the default mode)
    C,
    /// enable_compression(key, Default::default()) — i.e. mode None — which decompresses
    D,
    Set(u64, Value),
    Rm(u64),
    RmAll(u64),
}

fn vj(v: &Value) -> J {
    match v {
        Value::Null => J::Null,
        Value::Bool(b) => json!({"b": b}),
        Value::Int64(i) => json!({"i": i.to_string()}),
        Value::Float64(f) => json!({"f": f}),
        Value::String(s) => json!({"s": s.as_str()}),
        _ => vcore::machinery_failure("value kind not used by C15"),
    }
}
fn jv(j: &J) -> Value {
    if j.is_null() {
        Value::Null
    } else if let Some(b) = j.get("b") {
        Value::Bool(b.as_bool().unwrap_or(false))
    } else if let Some(i) = j.get("i") {
        Value::Int64(i.as_str().and_then(|s| s.parse().ok()).unwrap_or(0))
    } else if let Some(f) = j.get("f") {
        Value::Float64(f.as_f64().unwrap_or(0.0))
    } else {
        Value::from(j["s"].as_str().unwrap_or(""))
    }
}
pub fn ev_json(e: &Ev) -> J {
    match e {
        Ev::F => json!(["F"]),
        Ev::C => json!(["C"]),
        Ev::D => json!(["D"]),
        Ev::Set(id, v) => json!(["set", id.to_string(), vj(v)]),
        Ev::Rm(id) => json!(["rm", id.to_string()]),
        Ev::RmAll(id) => json!(["rmall", id.to_string()]),
    }
}
pub fn parse_ev(j: &J) -> Ev {
    let id = || j[1].as_str().and_then(|s| s.parse::<u64>().ok()).unwrap_or(0);
    match j[0].as_str().unwrap_or("") {
        "F" => Ev::F,
        "C" => Ev::C,
        "D" => Ev::D,
        "set" => Ev::Set(id(), jv(&j[2])),
        "rm" => Ev::Rm(id()),
        "rmall" => Ev::RmAll(id()),
        _ => vcore::machinery_failure("replay: bad property event"),
    }
}

pub struct NodeInfo {
    pub viols: Vec<Violation>,
    /// codec the column reported while compressed at the checked state (None = not compressed)
    pub compressed_with: Option<String>,
    pub ever_compressed: bool,
}

pub fn run_node(pop: &Pop, evs: &[Ev]) -> NodeInfo {
    let case = || json!({"layer": "property", "pop": pop.to_json(), "events": evs.iter().map(ev_json).collect::<Vec<_>>()});
    let mut cx = Cx::new("property", "column", "other", &case);
    let (kp, kq) = (PropertyKey::from("p"), PropertyKey::from("q"));
    let storage: PropertyStorage<NodeId> = PropertyStorage::new();
    let mut model: BTreeMap<u64, Value> = BTreeMap::new();
    let mut modelq: BTreeMap<u64, Value> = BTreeMap::new();
    let mut compressed_now: Option<String> = None;
    let mut pick = String::from("none");
    let mut ever_compressed = false;
    let mut ever_decompressed = false;
    let mut written: BTreeSet<u64> = BTreeSet::new();
    let mut removed: BTreeSet<u64> = BTreeSet::new();
    let mut last_rm: Option<(u64, Option<Value>, Option<Value>)> = None;

    let applied = cx.run("apply", || {
        for (id, v) in pop.values() {
            storage.set(NodeId::new(id), kp.clone(), v.clone());
            model.insert(id, v);
        }
        if pop.n > 0 {
            storage.set(NodeId::new(pop.base), kq.clone(), Value::Int64(1));
            modelq.insert(pop.base, Value::Int64(1));
        }
        for (i, e) in evs.iter().enumerate() {
            let last = i + 1 == evs.len();
            match e {
                Ev::F => storage.force_compress_all(),
                Ev::C => storage.compress_all(),
                Ev::D => storage.enable_compression(&kp, Default::default()),
                Ev::Set(id, v) => {
                    storage.set(NodeId::new(*id), kp.clone(), v.clone());
                    model.insert(*id, v.clone());
                    if compressed_now.is_some() {
                        written.insert(*id);
                        removed.remove(id);
                    }
                }
                Ev::Rm(id) => {
                    let got = storage.remove(NodeId::new(*id), &kp);
                    let want = model.remove(id);
                    if compressed_now.is_some() {
                        removed.insert(*id);
                        written.remove(id);
                    }
                    if last {
                        last_rm = Some((*id, got, want));
                    }
                }
                Ev::RmAll(id) => {
                    storage.remove_all(NodeId::new(*id));
                    model.remove(id);
                    modelq.remove(id);
                    if compressed_now.is_some() {
                        removed.insert(*id);
                        written.remove(id);
                    }
                }
            }
            let codec = storage.compression_stats().get(&kp).and_then(|s| s.codec).map(|c| c.name().to_string());
            match (&compressed_now, &codec) {
                (None, Some(c)) => {
                    ever_compressed = true;
                    ever_decompressed = false;
                    pick = c.clone();
                    written.clear();
                    removed.clear();
                }
                (Some(_), None) => ever_decompressed = true,
                _ => {}
            }
            compressed_now = codec;
        }
    });
    if applied.is_none() {
        return NodeInfo { viols: cx.out, compressed_with: None, ever_compressed };
    }

    let classify = |id: u64, got: &Option<Value>, want: &Option<Value>| -> &'static str {
        if compressed_now.is_some() {
            if got.is_none() && want.is_some() && !written.contains(&id) { "after-compress" } else { "while-compressed-other" }
        } else if ever_decompressed {
            if written.contains(&id) {
                "stale-value-after-decompress"
            } else if removed.contains(&id) {
                "removed-value-back-after-decompress"
            } else {
                "column-roundtrip"
            }
        } else {
            "never-compressed"
        }
    };

    if let Some((id, got, want)) = &last_rm {
        if got != want {
            let c = classify(*id, got, want);
            // at the time of the remove the id was still "untouched since compress"
            let c = if compressed_now.is_some() && got.is_none() && want.is_some() { "after-compress" } else { c };
            cx.fail_c(c, "remove", "remove", &[("pick", &pick)], format!("remove({id}) returned {got:?}, the value stored was {want:?}"));
        }
    }

    let mut ids: Vec<u64> = (0..pop.n as u64).map(|i| pop.base + i).collect();
    ids.push(pop.base + pop.n as u64);
    ids.push(pop.base + pop.n as u64 + 1000);
    let nids: Vec<NodeId> = ids.iter().map(|i| NodeId::new(*i)).collect();

    let reads = cx.run("read", || {
        let mut bad: Vec<(&'static str, u64, Option<Value>, Option<Value>)> = vec![];
        let batch = storage.get_batch(&nids, &kp);
        let all_batch = storage.get_all_batch(&nids);
        let sel = storage.get_selective_batch(&nids, &[kp.clone(), kq.clone()]);
        let sel_p = storage.get_selective_batch(&nids, std::slice::from_ref(&kp));
        for (k, id) in ids.iter().enumerate() {
            let want = model.get(id).cloned();
            let wantq = modelq.get(id).cloned();
            let got = storage.get(nids[k], &kp);
            if got != want {
                bad.push(("get", *id, got, want.clone()));
            }
            if batch.get(k).cloned().flatten() != want {
                bad.push(("get_batch", *id, batch.get(k).cloned().flatten(), want.clone()));
            }
            let all = storage.get_all(nids[k]);
            if all.get(&kp).cloned() != want {
                bad.push(("get_all", *id, all.get(&kp).cloned(), want.clone()));
            }
            if all.get(&kq).cloned() != wantq {
                bad.push(("get_all(other-key)", *id, all.get(&kq).cloned(), wantq.clone()));
            }
            let ab = all_batch.get(k).and_then(|m| m.get(&kp).cloned());
            if ab != want {
                bad.push(("get_all_batch", *id, ab, want.clone()));
            }
            let s1 = sel.get(k).and_then(|m| m.get(&kp).cloned());
            if s1 != want {
                bad.push(("get_selective_batch", *id, s1, want.clone()));
            }
            let s2 = sel_p.get(k).and_then(|m| m.get(&kp).cloned());
            if s2 != want {
                bad.push(("get_selective_batch(one-key)", *id, s2, want.clone()));
            }
        }
        bad
    });
    if let Some(bad) = reads {
        let total = bad.len();
        let mut classes_seen: BTreeSet<&'static str> = BTreeSet::new();
        for (stage, id, got, want) in bad {
            let c = if stage == "get_all(other-key)" { "other-column" } else { classify(id, &got, &want) };
            // every accessor goes through PropertyColumn::get: one report per class and state
            if !classes_seen.insert(c) {
                continue;
            }
            cx.fail_c(c, "get", stage, &[("pick", &pick)], format!("{stage}({id}) = {got:?}, expected {want:?} ({total} mismatching reads in this state; column codec now {compressed_now:?})"));
        }
    }
    NodeInfo { viols: cx.out, compressed_with: compressed_now.clone(), ever_compressed }
}

/// Populations explored (ids base..base+n under key "p").
pub fn populations(thorough: bool) -> Vec<Pop> {
    let mut out = vec![];
    let ns: &[usize] = if thorough { &[7, 8, 9, 16, 64, 65] } else { &[7, 8, 9, 65] };
    let sa: Vec<i128> = AS.iter().map(|v| *v as i128).collect();
    for &n in ns {
        for &base in &[0u64, 1 << 40] {
            let mut ints: Vec<Gen> = vec![];
            for a in &sa {
                ints.push(Gen::alleq(*a, n));
            }
            for (s, d) in [(0i128, 1i128), (-3, 1), (i64::MIN as i128, 1), (i64::MAX as i128 - n as i128 + 1, 1), (0, 3), (5, -1), (i64::MIN as i128, 1 << 55)] {
                ints.push(Gen::inc(s, d, n));
            }
            let small = [0i128, 1, -1, i64::MIN as i128, i64::MAX as i128];
            for a in small {
                for b in small {
                    if a != b {
                        ints.push(Gen::alt(a, b, n));
                    }
                }
            }
            if base == 0 {
                for a in &sa {
                    for b in &sa {
                        let mut g = Gen::repeach(vec![*a, *b], n.div_ceil(2));
                        g.len = n;
                        ints.push(g);
                    }
                }
            }
            for g in ints {
                out.push(Pop { n, base, ty: "int", r#gen: g, minor: 0, minor_ty: "null" });
            }
            for g in [Gen::alleq(0, n), Gen::alt(0, 1, n), Gen::alt(0, 3, n), Gen::inc(0, 1, n), Gen::alleq(2, n)] {
                out.push(Pop { n, base, ty: "str", r#gen: g, minor: 0, minor_ty: "null" });
            }
            for g in [Gen::alleq(1, n), Gen::alleq(0, n), Gen::alt(1, 0, n), Gen::outlier(0, 1, n / 2, n)] {
                out.push(Pop { n, base, ty: "bool", r#gen: g, minor: 0, minor_ty: "null" });
            }
            if base == 0 {
                for (ty, g) in [("int", Gen::inc(10, 1, n)), ("int", Gen::alleq(-1, n)), ("str", Gen::alt(0, 1, n)), ("bool", Gen::alt(1, 0, n))] {
                    for minor in [1usize, 2, 3] {
                        for minor_ty in ["float", "null", "str", "int"] {
                            if minor_ty != ty {
                                out.push(Pop { n, base, ty, r#gen: g.clone(), minor, minor_ty });
                            }
                        }
                    }
                }
            }
        }
    }
    out
}
