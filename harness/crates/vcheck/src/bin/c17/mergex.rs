//! Merge helpers of parallel/merge.rs on ALL splits of every small input into <= 3 runs.
use crate::model::{self, Row, Rows, SK, canon, canon_row};
use crate::strat::{chunks_rows, rows_to_chunk};
use crate::{Found, found};
use grafeo_common::types::Value;
use grafeo_core::execution::parallel as par;
use serde_json::json;
use std::sync::Arc;

fn int(i: i64) -> Value {
    Value::Int64(i)
}
fn list(v: &[i64]) -> Value {
    Value::List(Arc::from(v.iter().map(|i| Value::Int64(*i)).collect::<Vec<_>>()))
}

pub fn alphabet(name: &str) -> Vec<Value> {
    match name {
        "int" => vec![Value::Null, int(0), int(1), int(-2)],
        "float" => vec![Value::Null, Value::Float64(-0.5), Value::Float64(0.5), Value::Float64(2.5)],
        "str" => vec![Value::Null, Value::from(""), Value::from("a"), Value::from("b")],
        "bool" => vec![Value::Null, Value::Bool(false), Value::Bool(true)],
        // aggregates only: Int64 and Float64 in one column
        "mixednum" => vec![Value::Null, int(5), Value::Float64(1.0), int(3)],
        // distinct only
        "prim" => vec![Value::Null, int(0), int(1), Value::from("a"), Value::Bool(true)],
        "collide" => vec![Value::Null, Value::Bool(false), list(&[1]), list(&[2]), Value::Bytes(Arc::from(vec![1u8]))],
        _ => panic!("alphabet {name}"),
    }
}

pub fn key_variant(i: usize) -> Vec<SK> {
    match i {
        0 => vec![SK { col: 0, asc: true, nulls_first: false }],
        1 => vec![SK { col: 0, asc: true, nulls_first: true }],
        2 => vec![SK { col: 0, asc: false, nulls_first: true }],
        3 => vec![SK { col: 0, asc: false, nulls_first: false }],
        // strict total order: second key is the unique payload
        _ => vec![SK { col: 0, asc: true, nulls_first: false }, SK { col: 1, asc: false, nulls_first: false }],
    }
}
fn par_keys(k: &[SK]) -> Vec<par::SortKey> {
    k.iter().map(|k| par::SortKey { column: k.col, ascending: k.asc, nulls_first: k.nulls_first }).collect()
}

/// One merge-helper case: symbols (indices into the alphabet) in input order and
/// the run each element is assigned to.
#[derive(Clone, Debug)]
pub struct MCase {
    pub helper: String, // sorted-runs | sorted-chunks | accumulator | distinct
    pub alphabet: String,
    pub keys: usize,
    pub syms: Vec<usize>,
    pub assign: Vec<usize>,
}
impl MCase {
    pub fn json(&self) -> serde_json::Value {
        json!({"part":"A-merge","helper":self.helper,"alphabet":self.alphabet,"keys":self.keys,"syms":self.syms,"assign":self.assign})
    }
    pub fn from_json(v: &serde_json::Value) -> Option<MCase> {
        let arr = |x: &serde_json::Value| -> Option<Vec<usize>> { x.as_array()?.iter().map(|n| n.as_u64().map(|n| n as usize)).collect() };
        Some(MCase { helper: v["helper"].as_str()?.into(), alphabet: v["alphabet"].as_str()?.into(), keys: v["keys"].as_u64()? as usize, syms: arr(&v["syms"])?, assign: arr(&v["assign"])? })
    }
}

fn sig(helper: &str, kind: &str, alphabet: &str) -> Vec<(&'static str, String)> {
    vec![("layer", "A-merge".to_string()), ("strategy", format!("merge-helper:{helper}")), ("chain", helper.to_string()), ("kind", kind.into()), ("profile", alphabet.into())]
}

fn split_runs(rows: &Rows, assign: &[usize]) -> Vec<Rows> {
    let nr = assign.iter().copied().max().map_or(0, |m| m + 1).max(1);
    let mut runs: Vec<Rows> = vec![vec![]; nr];
    for (r, a) in rows.iter().zip(assign) {
        runs[*a].push(r.clone());
    }
    runs
}

pub fn run_case(c: &MCase) -> Vec<Found> {
    let alpha = alphabet(&c.alphabet);
    let n = c.syms.len();
    let boundary = format!("n{}/runs{}", n, c.assign.iter().copied().max().map_or(0, |m| m + 1));
    let mut out = vec![];
    let mut push = |kind: &str, d: String| out.push(found(&sig(&c.helper, kind, &c.alphabet), &boundary, n, c.keys, c.json(), d));
    match c.helper.as_str() {
        "sorted-runs" | "sorted-chunks" => {
            let keys = key_variant(c.keys);
            let rows: Rows = c.syms.iter().enumerate().map(|(i, s)| vec![alpha[*s].clone(), int(i as i64)]).collect();
            let mut runs = split_runs(&rows, &c.assign);
            for r in &mut runs {
                r.sort_by(|a, b| model::cmp_rows(a, b, &keys)); // precondition of the helper
            }
            let chain = [model::Op::Sort(keys.clone())];
            let r = vcore::catch(|| par::merge_sorted_runs(runs.clone(), &par_keys(&keys)));
            let merged = match r {
                Err(p) => {
                    push("panic", p);
                    return out;
                }
                Ok(Err(e)) => {
                    push("error", format!("{e}"));
                    return out;
                }
                Ok(Ok(m)) => m,
            };
            if c.helper == "sorted-runs" {
                if let Some((k, d)) = model::check(&chain, &rows, &merged, &mut model::Cache::default()) {
                    push(k, format!("runs {:?}: {d}; got {}", runs.iter().map(|r| model::show_rows(r, 6)).collect::<Vec<_>>(), model::show_rows(&merged, 8)));
                }
                if c.keys == 4 {
                    let exp = model::eval(&chain, &rows);
                    if exp.iter().map(|r| canon_row(r)).ne(merged.iter().map(|r| canon_row(r))) {
                        push("wrong-order", format!("strict order: expected {} got {}", model::show_rows(&exp, 8), model::show_rows(&merged, 8)));
                    }
                }
            } else {
                for (cs_in, cs_out) in [(1usize, 1usize), (2, 2048), (2048, 2)] {
                    let chunk_runs: Vec<Vec<_>> = runs.iter().map(|r| r.chunks(cs_in).map(|c| rows_to_chunk(c, 2)).collect()).collect();
                    match vcore::catch(|| par::merge_sorted_chunks(chunk_runs, &par_keys(&keys), cs_out)) {
                        Err(p) => push("panic", p),
                        Ok(Err(e)) => push("error", format!("{e}")),
                        Ok(Ok(chunks)) => {
                            let got = chunks_rows(&chunks);
                            if got.iter().map(|r| canon_row(r)).ne(merged.iter().map(|r| canon_row(r))) {
                                push("wrong-rows", format!("merge_sorted_chunks(in {cs_in}, out {cs_out}) differs from merge_sorted_runs: {} vs {}", model::show_rows(&got, 8), model::show_rows(&merged, 8)));
                            }
                            if chunks.iter().any(|c| c.len() > cs_out || c.len() == 0) {
                                push("wrong-rows", format!("output chunk sizes {:?} for chunk_size {cs_out}", chunks.iter().map(|c| c.len()).collect::<Vec<_>>()));
                            }
                        }
                    }
                }
            }
        }
        "accumulator" => {
            let vals: Vec<Value> = c.syms.iter().map(|s| alpha[*s].clone()).collect();
            let rows: Rows = vals.iter().map(|v| vec![v.clone()]).collect();
            let runs = split_runs(&rows, &c.assign);
            let contiguous = c.assign.windows(2).all(|w| w[0] <= w[1]);
            let r = vcore::catch(|| {
                let mut seq = par::MergeableAccumulator::new();
                for v in &vals {
                    seq.add(v);
                }
                let parts: Vec<par::MergeableAccumulator> = runs
                    .iter()
                    .map(|r| {
                        let mut a = par::MergeableAccumulator::new();
                        for row in r {
                            a.add(&row[0]);
                        }
                        a
                    })
                    .collect();
                // left fold and right-nested fold
                let mut left = par::MergeableAccumulator::new();
                for p in &parts {
                    left.merge(p);
                }
                let mut right = par::MergeableAccumulator::new();
                for p in parts.iter().rev() {
                    let mut t = p.clone();
                    t.merge(&right);
                    right = t;
                }
                (seq, left, right)
            });
            let (seq, left, right) = match r {
                Err(p) => {
                    push("panic", p);
                    return out;
                }
                Ok(x) => x,
            };
            let fin = |a: &par::MergeableAccumulator, with_first: bool| -> Row {
                let mut v = vec![a.finalize_count(), a.finalize_sum(), a.finalize_min(), a.finalize_max(), a.finalize_avg()];
                if with_first {
                    v.push(a.finalize_first());
                }
                v
            };
            // MIN/MAX keep the first value seen when two values are not comparable (Bool; Int64 against
            // Float64): only a split that keeps the input order has a well-defined sequential counterpart there
            if !contiguous && (c.alphabet == "bool" || c.alphabet == "mixednum") {
                return out;
            }
            for (name, m) in [("left-fold", &left), ("right-fold", &right)] {
                let (s, g) = (fin(&seq, contiguous), fin(m, contiguous));
                if canon_row(&s) != canon_row(&g) {
                    push("wrong-aggregate", format!("{name} of runs {:?} = [count,sum,min,max,avg,first] {} but the sequential accumulator gives {}", runs.iter().map(|r| model::show_rows(r, 6)).collect::<Vec<_>>(), canon_row(&g), canon_row(&s)));
                }
            }
            if c.alphabet != "mixednum" {
                // by definition (homogeneous column)
                let refrow = &model::eval(&[model::Op::AggGlobal], &vals.iter().map(|v| vec![Value::Null, v.clone()]).collect())[0];
                // reference: count*, count, sum, min, max, avg
                let numeric = c.alphabet == "int" || c.alphabet == "float";
                let g = fin(&left, false);
                let mut bad = vec![];
                if canon(&g[0]) != canon(&refrow[1]) {
                    bad.push(format!("count {} want {}", canon(&g[0]), canon(&refrow[1])));
                }
                if numeric {
                    for (gi, ri, nm) in [(1usize, 2usize, "sum"), (4, 5, "avg")] {
                        if canon(&g[gi]) != canon(&refrow[ri]) {
                            bad.push(format!("{nm} {} want {}", canon(&g[gi]), canon(&refrow[ri])));
                        }
                    }
                }
                if c.alphabet != "bool" {
                    for (gi, ri, nm) in [(2usize, 3usize, "min"), (3, 4, "max")] {
                        if canon(&g[gi]) != canon(&refrow[ri]) {
                            bad.push(format!("{nm} {} want {}", canon(&g[gi]), canon(&refrow[ri])));
                        }
                    }
                }
                if !bad.is_empty() {
                    push("wrong-aggregate", format!("merged accumulator vs definition on {}: {}", model::show_rows(&rows, 8), bad.join(", ")));
                }
            }
        }
        "distinct" => {
            let rows: Rows = c.syms.iter().map(|s| vec![alpha[*s].clone()]).collect();
            let runs = split_runs(&rows, &c.assign);
            let chunk_runs: Vec<Vec<_>> = runs.iter().map(|r| if r.is_empty() { vec![] } else { vec![rows_to_chunk(r, 1)] }).collect();
            match vcore::catch(|| par::merge_distinct_results(chunk_runs)) {
                Err(p) => push("panic", p),
                Ok(Err(e)) => push("error", format!("{e}")),
                Ok(Ok(chunks)) => {
                    let got = chunks_rows(&chunks);
                    if let Some((k, d)) = model::check(&[model::Op::Distinct], &rows, &got, &mut model::Cache::default()) {
                        push(k, format!("runs {:?}: {d}", runs.iter().map(|r| model::show_rows(r, 6)).collect::<Vec<_>>()));
                    }
                }
            }
            // the trivial concatenation helper keeps everything
            let chunk_runs: Vec<Vec<_>> = runs.iter().map(|r| r.chunks(2).map(|c| rows_to_chunk(c, 1)).collect()).collect();
            let cat = chunks_rows(&par::concat_parallel_results(chunk_runs));
            if let Some((k, d)) = model::check(&[], &rows, &cat, &mut model::Cache::default()) {
                out.push(found(&sig("concat", k, &c.alphabet), &boundary, n, 0, c.json(), d));
            }
        }
        h => panic!("helper {h}"),
    }
    out
}

/// Non-decreasing index sequences (multisets) of length `len` over `0..k`.
fn multisets(k: usize, len: usize) -> Vec<Vec<usize>> {
    let mut out = vec![vec![]];
    for _ in 0..len {
        let mut next = vec![];
        for s in &out {
            let lo = s.last().copied().unwrap_or(0);
            for a in lo..k {
                let mut t: Vec<usize> = s.clone();
                t.push(a);
                next.push(t);
            }
        }
        out = next;
    }
    out
}

/// Work units (helper, alphabet, keys, syms); every unit runs all 3^n assignments.
pub fn units(thorough: bool) -> Vec<(String, String, usize, Vec<usize>)> {
    let mut v = vec![];
    let nmax = if thorough { 6 } else { 3 };
    for alpha in ["int", "float", "str", "bool"] {
        let k = alphabet(alpha).len();
        for len in 0..=nmax {
            for syms in multisets(k, len) {
                for keys in 0..5 {
                    v.push(("sorted-runs".to_string(), alpha.to_string(), keys, syms.clone()));
                }
                for keys in [0usize, 4] {
                    if len <= 4 {
                        v.push(("sorted-chunks".to_string(), alpha.to_string(), keys, syms.clone()));
                    }
                }
            }
        }
    }
    let amax = if thorough { 6 } else { 3 };
    for alpha in ["int", "float", "str", "bool", "mixednum"] {
        let k = alphabet(alpha).len();
        for len in 0..=amax {
            for syms in vcore::sequences(k, len) {
                v.push(("accumulator".to_string(), alpha.to_string(), 0, syms));
            }
        }
    }
    let dmax = if thorough { 5 } else { 3 };
    for alpha in ["prim", "collide"] {
        let k = alphabet(alpha).len();
        for len in 0..=dmax {
            for syms in vcore::sequences(k, len) {
                v.push(("distinct".to_string(), alpha.to_string(), 0, syms));
            }
        }
    }
    v
}

pub fn assignments(n: usize) -> Vec<Vec<usize>> {
    vcore::sequences(3, n)
}
