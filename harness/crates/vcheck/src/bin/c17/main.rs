//! C17 — parallel, push-based and spilling execution equal simple sequential execution
//! (DESIGN.md §3/C17: E3 configuration product + seam-controlled schedules).
mod mergex;
mod model;
mod sched;
mod schedapi;
mod spillx;
mod strat;
mod tables;

use model::{Op, Rows};
use serde_json::{Value as J, json};
use std::collections::BTreeMap;
use std::path::Path;
use strat::{Layout, MorselCfg, PushVariant};
use vcore::{Report, Tier, Violation};

/// One oracle failure before aggregation.
pub struct Found {
    /// signature without the boundary field
    pub sig: Vec<(String, String)>,
    pub boundary: String,
    /// smaller = simpler; the smallest case per signature is the one reported
    pub rank: (usize, usize),
    pub case: J,
    pub detail: String,
}
pub fn found(sig: &[(&str, String)], boundary: &str, n: usize, rank: usize, case: J, detail: String) -> Found {
    Found { sig: sig.iter().map(|(k, v)| (k.to_string(), v.clone())).collect(), boundary: boundary.to_string(), rank: (n, rank), case, detail }
}
impl Found {
    fn key(&self) -> String {
        self.sig.iter().map(|(k, v)| format!("{k}={v}")).collect::<Vec<_>>().join(",")
    }
    fn violation(&self, count: u64) -> Violation {
        let mut fields: Vec<(&str, &str)> = self.sig.iter().map(|(k, v)| (k.as_str(), v.as_str())).collect();
        fields.push(("boundary", self.boundary.as_str()));
        Violation::new(&fields, self.case.clone(), format!("{} [{} failing case(s) with this mechanism; smallest shown]", self.detail, count))
    }
}
#[derive(Default)]
struct Agg {
    m: BTreeMap<String, (Found, u64)>,
}
impl Agg {
    fn add(&mut self, f: Found) {
        self.add_n(f, 1);
    }
    fn add_n(&mut self, f: Found, n: u64) {
        let k = f.key();
        match self.m.get_mut(&k) {
            None => {
                self.m.insert(k, (f, n));
            }
            Some(e) => {
                e.1 += n;
                if f.rank < e.0.rank {
                    e.0 = f;
                }
            }
        }
    }
}

// ---------------------------------------------------------------------------
// Signature condensation: one signature per mechanism instead of one per
// (variant strategy x 2-chain x table profile) that merely inherits it.
// ---------------------------------------------------------------------------

fn fget<'a>(f: &'a Found, k: &str) -> &'a str {
    f.sig.iter().find(|(a, _)| a == k).map(|(_, v)| v.as_str()).unwrap_or("")
}
fn fset(f: &mut Found, k: &str, v: &str) {
    for (a, b) in f.sig.iter_mut() {
        if a == k {
            *b = v.to_string();
        }
    }
}
/// kinds that all mean "the rows are not the right rows"
fn family(kind: &str) -> &str {
    match kind {
        "missing-rows" | "extra-rows" | "wrong-rows" | "wrong-aggregate" => "content",
        k => k,
    }
}
fn base_strategy(s: &str) -> &str {
    if s.starts_with("push-") {
        "push"
    } else if s.starts_with("pull-") {
        "pull"
    } else {
        s
    }
}
fn regroup(v: Vec<(Found, u64)>) -> Vec<(Found, u64)> {
    let mut a = Agg::default();
    for (f, n) in v {
        a.add_n(f, n);
    }
    a.m.into_values().collect()
}

/// `ran`: (layer, chain) -> profiles on which that chain was executed; `pairs`: signature names of all 2-chains.
fn condense(input: Vec<(Found, u64)>, ran: &BTreeMap<(String, String), std::collections::BTreeSet<String>>, pairs: &[String]) -> Vec<(Found, u64)> {
    let mut v = input;
    // 1. a variant strategy (tracked, materialising, spilling, adaptive, ...) failing where the base strategy
    //    fails on the same chain and profile with the same kind family is explained by the base failure
    let snapshot: Vec<(String, String, String, String, String)> = v.iter().map(|(f, _)| (fget(f, "layer").to_string(), fget(f, "strategy").to_string(), fget(f, "chain").to_string(), fget(f, "profile").to_string(), family(fget(f, "kind")).to_string())).collect();
    let exists = |layer: &str, strat: &str, chain: &str, profile: &str, fam: &str| snapshot.iter().any(|x| x.0 == layer && x.1 == strat && x.2 == chain && x.3 == profile && x.4 == fam);
    for (f, _) in v.iter_mut() {
        if fget(f, "layer") != "A-config" {
            continue;
        }
        let (st, ch, pr, fam) = (fget(f, "strategy").to_string(), fget(f, "chain").to_string(), fget(f, "profile").to_string(), family(fget(f, "kind")).to_string());
        let base = base_strategy(&st).to_string();
        if base != st && exists("A-config", &base, &ch, &pr, &fam) {
            fset(f, "strategy", &base);
            f.rank = (usize::MAX, 0); // never the representative
        }
    }
    // after renaming, align kinds inside one family to the representative's kind
    let v2 = align_kinds(v);
    let mut v = v2;
    // 2. every 2-chain with the same first (or second) operator fails: name the operator position
    for prefix in [true, false] {
        let mut ops: Vec<String> = pairs.iter().filter_map(|p| p.split_once('>').map(|(a, b)| if prefix { a.to_string() } else { b.to_string() })).collect();
        ops.sort();
        ops.dedup();
        for op in ops {
            let all: Vec<&String> = pairs.iter().filter(|p| p.split_once('>').is_some_and(|(a, b)| if prefix { a == op } else { b == op })).collect();
            if all.len() < 3 {
                continue;
            }
            let mut groups: BTreeMap<(String, String, String), Vec<usize>> = BTreeMap::new();
            for (i, (f, _)) in v.iter().enumerate() {
                if fget(f, "layer") == "A-config" && all.iter().any(|c| c.as_str() == fget(f, "chain")) {
                    groups.entry((fget(f, "strategy").to_string(), fget(f, "profile").to_string(), family(fget(f, "kind")).to_string())).or_default().push(i);
                }
            }
            for (_, idx) in groups {
                let chains: std::collections::BTreeSet<&str> = idx.iter().map(|i| fget(&v[*i].0, "chain")).collect();
                if chains.len() == all.len() {
                    let name = if prefix { format!("{op}>*") } else { format!("*>{op}") };
                    for i in idx {
                        fset(&mut v[i].0, "chain", &name);
                    }
                }
            }
        }
        v = align_kinds(v);
    }
    // 3. a (not yet generalised) 2-chain failing where one of its operators alone fails (same strategy, profile, kind family)
    let snapshot: Vec<(String, String, String, String, String)> = v.iter().map(|(f, _)| (fget(f, "layer").to_string(), fget(f, "strategy").to_string(), fget(f, "chain").to_string(), fget(f, "profile").to_string(), family(fget(f, "kind")).to_string())).collect();
    let exists = |layer: &str, strat: &str, chain: &str, profile: &str, fam: &str| snapshot.iter().any(|x| x.0 == layer && x.1 == strat && x.2 == chain && x.3 == profile && x.4 == fam);
    for (f, _) in v.iter_mut() {
        if fget(f, "layer") != "A-config" {
            continue;
        }
        let ch = fget(f, "chain").to_string();
        let Some((a, b)) = ch.split_once('>') else { continue };
        let (st, pr, fam) = (fget(f, "strategy").to_string(), fget(f, "profile").to_string(), family(fget(f, "kind")).to_string());
        for single in [a, b] {
            if exists("A-config", &st, single, &pr, &fam) {
                fset(f, "chain", single);
                f.rank = (usize::MAX, 0);
                break;
            }
        }
    }
    let mut v = align_kinds(v);
    // 4. profiles: "any" when the mechanism shows on every profile the chain was run on
    let mut groups: BTreeMap<(String, String, String, String), Vec<usize>> = BTreeMap::new();
    for (i, (f, _)) in v.iter().enumerate() {
        groups.entry((fget(f, "layer").to_string(), fget(f, "strategy").to_string(), fget(f, "chain").to_string(), fget(f, "kind").to_string())).or_default().push(i);
    }
    for ((layer, _, chain, _), idx) in groups {
        if layer == "A-merge" {
            continue;
        }
        let profs: std::collections::BTreeSet<String> = idx.iter().map(|i| fget(&v[*i].0, "profile").to_string()).collect();
        let lookup = if let Some(op) = chain.strip_suffix(">*") { pairs.iter().find(|p| p.starts_with(&format!("{op}>"))).cloned().unwrap_or(chain.clone()) } else if let Some(op) = chain.strip_prefix("*>") { pairs.iter().find(|p| p.ends_with(&format!(">{op}"))).cloned().unwrap_or(chain.clone()) } else { chain.clone() };
        let name = match ran.get(&(layer.clone(), lookup)) {
            Some(all) if *all == profs && all.len() > 1 => "any".to_string(),
            _ => profs.iter().cloned().collect::<Vec<_>>().join("+"),
        };
        for i in idx {
            fset(&mut v[i].0, "profile", &name);
        }
    }
    regroup(v)
}
/// After signatures were renamed, entries of one (layer,strategy,chain,profile,kind family) take the kind of the smallest case.
fn align_kinds(v: Vec<(Found, u64)>) -> Vec<(Found, u64)> {
    let mut best: BTreeMap<(String, String, String, String, String), ((usize, usize), String)> = BTreeMap::new();
    for (f, _) in &v {
        let k = (fget(f, "layer").to_string(), fget(f, "strategy").to_string(), fget(f, "chain").to_string(), fget(f, "profile").to_string(), family(fget(f, "kind")).to_string());
        let e = best.entry(k).or_insert((f.rank, fget(f, "kind").to_string()));
        if f.rank < e.0 {
            *e = (f.rank, fget(f, "kind").to_string());
        }
    }
    let mut out = v;
    for (f, _) in out.iter_mut() {
        let k = (fget(f, "layer").to_string(), fget(f, "strategy").to_string(), fget(f, "chain").to_string(), fget(f, "profile").to_string(), family(fget(f, "kind")).to_string());
        let kind = best[&k].1.clone();
        fset(f, "kind", &kind);
    }
    regroup(out)
}

// ---------------------------------------------------------------------------
// Part A: configuration product
// ---------------------------------------------------------------------------

fn single_chains() -> Vec<Vec<Op>> {
    ["filter", "project", "limit:2", "limit:600", "limit:2048", "distinct", "distinct-on:0", "sort1", "sort2", "agg", "agg-group"].iter().map(|s| model::parse_chain(s).unwrap()).collect()
}
fn pair_chains() -> Vec<Vec<Op>> {
    let base = ["filter", "project", "limit:2", "limit:600", "distinct", "sort1", "agg", "agg-group"];
    let mut v = vec![];
    for a in base {
        if a.starts_with("agg") {
            continue;
        }
        for b in base {
            v.push(model::parse_chain(&format!("{a}>{b}")).unwrap());
        }
    }
    for s in ["agg-group>sort1", "agg-group>limit:2", "agg-group>having", "sort2>limit:2", "sort2>limit:600", "filter>sort2", "project>sort2", "filter>having", "having>filter"] {
        v.push(model::parse_chain(s).unwrap());
    }
    v
}

const SMALL_MAX: usize = 64;

/// Layouts worth distinguishing for a table of `n` rows.
fn layouts(n: usize, thorough: bool) -> Vec<Layout> {
    if n > SMALL_MAX && !thorough {
        // (tiny chunks of a big table cost 64 KiB per column vector in this code base: thorough tier only)
        return vec![Layout::Auto, Layout::Chunks(2048), Layout::Chunks(4096)];
    }
    if n <= SMALL_MAX {
        // one chunk of 2048 or 4096 is the same thing as "auto" here
        vec![Layout::Auto, Layout::Chunks(3), Layout::Chunks(1), Layout::Chunks3e]
    } else {
        vec![Layout::Auto, Layout::Chunks(2048), Layout::Chunks(4096), Layout::Chunks(3)]
    }
}

/// Strategy configurations for one (table size, chain).  Small tables (<= 64 rows)
/// get the full product with forced morsel sizes {1, 7, n, n+1} and chunk sizes
/// {1, 3}; the tables around 1024 / 2048 rows get the native morsel sizes of
/// `ParallelPipeline` (1024 under critical pressure, 65536 normally), forced n and
/// n+1, and the chunk sizes 2048 / 4096 / 3.
/// `par_mode`: 0 = full parallel product (thorough), 1 = quick product for the structural single operators,
/// 2 = reduced product, 3 = no parallel runs for this item.
fn strategy_tags(chain: &[Op], n: usize, workers_max: usize, thorough: bool, par_mode: u8) -> (Vec<String>, u64) {
    let mut tags = vec![];
    let mut skipped = 0u64;
    let has = |f: fn(&Op) -> bool| chain.iter().any(f);
    let has_global = has(|o| matches!(o, Op::AggGlobal));
    let has_distinct = has(|o| matches!(o, Op::Distinct | Op::DistinctOn(_)));
    let has_sort = has(|o| matches!(o, Op::Sort(_)));
    let has_agg = has(|o| matches!(o, Op::AggGlobal | Op::AggGroup));
    let small = n <= SMALL_MAX;
    for l in layouts(n, thorough) {
        tags.push(format!("pull/{}/simple", l.tag()));
    }
    for l in layouts(n, thorough) {
        tags.push(format!("push/{}/plain", l.tag()));
    }
    let second: Vec<Layout> = if small || thorough { vec![Layout::Auto, Layout::Chunks(3)] } else { vec![Layout::Auto] };
    for l in &second {
        tags.push(format!("pull/{}/adaptive", l.tag()));
        tags.push(format!("push/{}/tracked", l.tag()));
        if has_global {
            tags.push(format!("pull/{}/hashagg", l.tag()));
        }
        if has_distinct {
            tags.push(format!("push/{}/matdistinct", l.tag()));
        }
    }
    if has_sort || has_agg {
        let spill_layouts: Vec<Layout> = if small { vec![Layout::Auto, Layout::Chunks(3), Layout::Chunks(1)] } else if thorough { vec![Layout::Auto, Layout::Chunks(3)] } else { vec![Layout::Auto, Layout::Chunks(64)] };
        let thrs: Vec<usize> = if small { vec![1, 2, 7, 1_000_000] } else { vec![1, 64, 1000, 1_000_000] };
        for l in spill_layouts {
            tags.push(format!("push/{}/spillnomgr", l.tag()));
            for &thr in &thrs {
                let c_eff = match l {
                    Layout::Chunks(c) => c,
                    _ => 2048,
                };
                if has_sort && n.div_ceil(thr.max(c_eff)) > 200 {
                    skipped += 1; // bound: at most ~200 run files per sort
                    continue;
                }
                tags.push(format!("push/{}/spill{thr}", l.tag()));
            }
        }
    }
    if strat::merge_kind(chain).is_some() && !chain.is_empty() && par_mode != 3 {
        let (src_chunk, mut morsels): (Vec<(Layout, usize)>, Vec<MorselCfg>) = if small && par_mode == 2 {
            (vec![(Layout::Auto, 1), (Layout::Chunks3e, 2048)], vec![MorselCfg::Forced(1), MorselCfg::Forced(7), MorselCfg::Forced(n + 1)])
        } else if small && par_mode == 1 {
            // (the native morsel sizes are one morsel here, like forced n+1)
            (vec![(Layout::Auto, 2048), (Layout::Auto, 3), (Layout::Auto, 1), (Layout::Chunks3e, 2048)], vec![MorselCfg::Forced(1), MorselCfg::Forced(7), MorselCfg::Forced(n.max(1)), MorselCfg::Forced(n + 1)])
        } else if small {
            (
                vec![(Layout::Auto, 2048), (Layout::Auto, 3), (Layout::Auto, 1), (Layout::Chunks(3), 2048), (Layout::Chunks3e, 2048)],
                vec![MorselCfg::Critical, MorselCfg::Forced(1), MorselCfg::Forced(7), MorselCfg::Forced(n.max(1)), MorselCfg::Forced(n + 1)],
            )
        } else {
            let mut m = vec![MorselCfg::Critical, MorselCfg::Normal, MorselCfg::Forced(n), MorselCfg::Forced(n + 1)];
            let mut sc = vec![(Layout::Auto, 2048), (Layout::Chunks(2048), 2048)];
            if thorough {
                m.push(MorselCfg::Forced(7));
                sc.push((Layout::Chunks(2048), 3));
                sc.push((Layout::Chunks(3), 2048));
            }
            (sc, m)
        };
        morsels.dedup();
        let workers: Vec<usize> = if par_mode != 0 { vec![1, 3] } else { (1..=workers_max).collect() };
        for (s, c) in src_chunk {
            for m in &morsels {
                for &w in &workers {
                    tags.push(format!("par/{}/{}/{}/{}", s.tag(), m.tag(), c, w));
                }
            }
        }
    }
    (tags, skipped)
}

fn strategy_sig(tag: &str) -> (String, String) {
    let p: Vec<&str> = tag.split('/').collect();
    match p[0] {
        "pull" => (if p[2] == "simple" { "pull".into() } else { format!("pull-{}", p[2]) }, format!("chunk={}", p[1])),
        "push" => {
            let v = p[2];
            if v == "plain" {
                ("push".into(), format!("chunk={}", p[1]))
            } else if let Some(t) = v.strip_prefix("spill").filter(|t| t.parse::<usize>().is_ok()) {
                ("push-spill".into(), format!("chunk={}/{}", p[1], if t == "1" { "budget-min".to_string() } else if t == "1000000" { "budget-unlimited".to_string() } else { format!("budget-{t}") }))
            } else {
                (format!("push-{v}"), format!("chunk={}", p[1]))
            }
        }
        _ => ("parallel".into(), format!("src={}/morsel={}/chunk={}/workers={}", p[1], p[2], p[3], p[4])),
    }
}

fn config_case_json(profile: &str, n: usize, chain: &[Op], tag: &str) -> J {
    json!({"part":"A-config","profile":profile,"n":n,"chain":model::chain_name(chain),"strategy":tag})
}

/// Run ONE configuration on the real code and judge it. Returns the failures and the rows (if any).
fn run_config_case(profile: &str, n: usize, input: &Rows, cache: &mut model::Cache, chain: &[Op], tag: &str, order: usize, scratch: &Path) -> (Vec<Found>, Option<Rows>) {
    let (sname, cfg) = strategy_sig(tag);
    let boundary = format!("{}/{}", tables::size_tag(n), cfg);
    let case = config_case_json(profile, n, chain, tag);
    let sig = |kind: &str| vec![("layer", "A-config".to_string()), ("strategy", sname.clone()), ("chain", model::chain_sig(chain)), ("kind", kind.to_string()), ("profile", profile.to_string())];
    let mut founds = vec![];
    let p: Vec<&str> = tag.split('/').collect();
    let bad = || -> ! { vcore::machinery_failure(&format!("unparsable strategy tag {tag}")) };
    let mut extra_check: Option<String> = None;
    let mut left: Option<String> = None;
    let res: Result<Result<Rows, String>, String> = match p[0] {
        "pull" => {
            let l = Layout::parse(p[1]).unwrap_or_else(|| bad());
            vcore::catch(|| strat::run_pull(input, tables::WIDTH, chain, l, p[2]))
        }
        "push" => {
            let l = Layout::parse(p[1]).unwrap_or_else(|| bad());
            let v = PushVariant::parse(p[2]).unwrap_or_else(|| bad());
            match vcore::catch(|| strat::run_push(input, tables::WIDTH, chain, l, &v, scratch)) {
                Ok(o) => {
                    left = o.left;
                    Ok(o.rows)
                }
                Err(e) => Err(e),
            }
        }
        "par" => {
            let s = Layout::parse(p[1]).unwrap_or_else(|| bad());
            let m = MorselCfg::parse(p[2]).unwrap_or_else(|| bad());
            let c: usize = p[3].parse().unwrap_or_else(|_| bad());
            let w: usize = p[4].parse().unwrap_or_else(|_| bad());
            match vcore::catch(|| strat::run_parallel(input, tables::WIDTH, chain, s, m, c, w)) {
                Ok(Some(o)) => {
                    let msize = match m {
                        MorselCfg::Critical => 1024,
                        MorselCfg::Normal => 65536,
                        MorselCfg::Forced(x) => x,
                    };
                    let want_m = n.div_ceil(msize);
                    if o.rows.is_ok() && (o.rows_processed != n || o.morsels != want_m) {
                        extra_check = Some(format!("rows_processed {} (want {n}), morsels_processed {} (want {want_m})", o.rows_processed, o.morsels));
                    }
                    Ok(o.rows)
                }
                Ok(None) => bad(),
                Err(e) => Err(e),
            }
        }
        _ => bad(),
    };
    let mut rows_out = None;
    match res {
        Err(pmsg) => founds.push(found(&sig("panic"), &boundary, n, order, case.clone(), format!("panic: {pmsg}"))),
        Ok(Err(e)) => founds.push(found(&sig("error"), &boundary, n, order, case.clone(), format!("operator error: {e}"))),
        Ok(Ok(rows)) => {
            if let Some((k, d)) = model::check(chain, input, &rows, cache) {
                founds.push(found(&sig(k), &boundary, n, order, case.clone(), format!("{d}; got {}", model::show_rows(&rows, 6))));
            } else {
                rows_out = Some(rows);
            }
            if let Some(d) = extra_check {
                founds.push(found(&sig("missing-rows"), &boundary, n, order, case.clone(), format!("execution counters: {d}")));
            }
        }
    }
    if let Some(l) = left {
        founds.push(found(&sig("spill-file-left"), &boundary, n, order, case.clone(), l));
    }
    (founds, rows_out)
}

struct ItemOut {
    evals: u64,
    nontrivial: Vec<u64>,
    founds: Vec<(Found, u64)>,
    sample: Option<J>,
    skipped: u64,
}

fn run_config_item(profile: &str, n: usize, chain: &[Op], workers_max: usize, thorough: bool, par_mode: u8, scratch: &Path) -> ItemOut {
    let input = tables::table(profile, n);
    let mut cache = model::Cache::default();
    let exp_len = cache.eval(chain, &input).len();
    let (tags, skipped) = strategy_tags(chain, n, workers_max, thorough, par_mode);
    let mut out = ItemOut { evals: 0, nontrivial: vec![], founds: vec![], sample: None, skipped };
    let mut agg = Agg::default();
    let mut baseline: Option<(String, model::MS)> = None;
    let exact = model::is_exact_chain(chain);
    for (order, tag) in tags.iter().enumerate() {
        let (mut f, rows) = run_config_case(profile, n, &input, &mut cache, chain, tag, order, scratch);
        out.evals += 1;
        if n >= 2 && exp_len > 0 {
            out.nontrivial.push(vcore::hash_of(&(profile, n, model::chain_name(chain), tag)));
        }
        if let (true, Some(rows)) = (exact, &rows) {
            let ms = model::multiset(&model::norm_rows(rows, chain, false));
            match &baseline {
                None if tag.starts_with("pull/") => baseline = Some((tag.clone(), ms)),
                Some((btag, bms)) if *bms != ms => {
                    let (sname, cfg) = strategy_sig(tag);
                    let sig = vec![("layer", "A-config".to_string()), ("strategy", sname), ("chain", model::chain_sig(chain)), ("kind", "strategies-disagree".to_string()), ("profile", profile.to_string())];
                    let diff: Vec<String> = bms.iter().filter(|(k, v)| ms.get(*k) != Some(*v)).map(|(k, _)| k.clone()).chain(ms.iter().filter(|(k, v)| bms.get(*k) != Some(*v)).map(|(k, _)| k.clone())).take(4).collect();
                    f.push(found(&sig, &format!("{}/{}", tables::size_tag(n), cfg), n, order, config_case_json(profile, n, chain, tag), format!("both results are admissible against the reference but differ from each other: {tag} vs {btag}: rows {diff:?}")));
                }
                _ => {}
            }
        }
        if out.sample.is_none() && order == tags.len() - 1 && n == 8 {
            out.sample = Some(json!({"case": config_case_json(profile, n, chain, tag), "reference_rows": exp_len, "got_rows": rows.as_ref().map(|r| r.len()), "strategies_run": tags.len()}));
        }
        for x in f {
            agg.add(x);
        }
    }
    out.founds = agg.m.into_values().collect();
    out
}

// ---------------------------------------------------------------------------

fn to_violations(f: Vec<Found>) -> Vec<Violation> {
    f.iter().map(|x| x.violation(1)).collect()
}

fn replay(case: &J, scratch: &Path) -> i32 {
    let run = |case: &J| -> Vec<Found> {
        match case["part"].as_str() {
            Some("A-config") => {
                let chain = model::parse_chain(case["chain"].as_str().unwrap_or("")).unwrap_or_else(|| vcore::machinery_failure("replay: bad chain"));
                let profile = case["profile"].as_str().unwrap_or("plain");
                let n = case["n"].as_u64().unwrap_or(0) as usize;
                let tag = case["strategy"].as_str().unwrap_or("");
                let input = tables::table(profile, n);
                let mut cache = model::Cache::default();
                let (mut f, rows) = run_config_case(profile, n, &input, &mut cache, &chain, tag, 0, scratch);
                // strategies-disagree cases: re-run the pull baseline too
                if let Some(rows) = rows {
                    if model::is_exact_chain(&chain) {
                        let (_, base) = run_config_case(profile, n, &input, &mut cache, &chain, "pull/auto/simple", 0, scratch);
                        if let Some(b) = base {
                            if model::multiset(&model::norm_rows(&b, &chain, false)) != model::multiset(&model::norm_rows(&rows, &chain, false)) {
                                let (sname, cfg) = strategy_sig(tag);
                                let sig = vec![("layer", "A-config".to_string()), ("strategy", sname), ("chain", model::chain_sig(&chain)), ("kind", "strategies-disagree".to_string()), ("profile", profile.to_string())];
                                f.push(found(&sig, &format!("{}/{}", tables::size_tag(n), cfg), n, 0, case.clone(), format!("{} vs pull/auto/simple {}", model::show_rows(&rows, 6), model::show_rows(&b, 6))));
                            }
                        }
                    }
                }
                f
            }
            Some("A-spill") => match case["engine"].as_str() {
                Some("external-sort") => spillx::run_ext(&spillx::ExtCase::from_json(case).unwrap_or_else(|| vcore::machinery_failure("replay: bad case")), scratch),
                _ => spillx::run_part(&spillx::PartCase::from_json(case).unwrap_or_else(|| vcore::machinery_failure("replay: bad case")), scratch),
            },
            Some("A-merge") => mergex::run_case(&mergex::MCase::from_json(case).unwrap_or_else(|| vcore::machinery_failure("replay: bad case"))),
            Some("A-morsel") => schedapi::replay(case),
            Some("B-sched") => sched::run_schedule(&sched::SCase::from_json(case).unwrap_or_else(|| vcore::machinery_failure("replay: bad case"))).founds,
            _ => vcore::machinery_failure("replay: unknown part"),
        }
    };
    let a = run(case);
    let b = run(case);
    let ka: Vec<String> = a.iter().map(|f| f.key()).collect();
    let kb: Vec<String> = b.iter().map(|f| f.key()).collect();
    if ka != kb {
        vcore::machinery_failure("replaying the same case twice gave different observations");
    }
    vcheck::replay_report("C17", to_violations(a))
}

fn main() {
    // The executors under test allocate a 2048-slot column vector per chunk; with glibc's default
    // trimming every free() of such a vector ends in madvise().  The malloc tunables are only read at
    // process start, so re-exec this binary once with them set (children inherit them).
    if std::env::var_os("MALLOC_TRIM_THRESHOLD_").is_none() {
        if let Ok(exe) = std::env::current_exe() {
            let st = std::process::Command::new(exe).args(std::env::args_os().skip(1)).env("MALLOC_TRIM_THRESHOLD_", "2000000000").env("MALLOC_MMAP_THRESHOLD_", "33554432").status();
            if let Ok(st) = st {
                std::process::exit(st.code().unwrap_or(2));
            }
        }
    }
    std::process::exit(run(vcheck::entry()));
}

// ---------------------------------------------------------------------------
// enumeration of the thread-heavy work (shared by the parent and its shard processes)
// ---------------------------------------------------------------------------

/// (profile, size, chain, workers_max, parallel product mode — see `strategy_tags`)
type Item = (String, usize, Vec<Op>, usize, u8);

const SMALL_SIZES: [usize; 8] = [0, 1, 2, 3, 6, 7, 8, 13];
const LARGE_SIZES: [usize; 6] = [1023, 1024, 1025, 2047, 2048, 2049];

/// Quick tier: 0, 1, 2 and one size at / above each threshold (morsel 7 forced, morsel 1024 native, chunk 2048).
const QUICK_SMALL: [usize; 5] = [0, 1, 2, 7, 8];
const QUICK_LARGE: [usize; 2] = [1025, 2049];

fn cfg_items(thorough: bool) -> Vec<Item> {
    let mut items: Vec<Item> = vec![];
    let structural = ["plain", "unique"];
    if thorough {
        // sizes: 0,1,2 and one below / at / one above every morsel size (forced 1 and 7, native 1024) and chunk size (3, 2048)
        let sizes: Vec<usize> = SMALL_SIZES.iter().chain(LARGE_SIZES.iter()).copied().collect();
        for profile in tables::PROFILES {
            for &n in &sizes {
                let wm = if structural.contains(&profile) { 16 } else { 4 };
                for c in single_chains() {
                    items.push((profile.to_string(), n, c, wm, 0));
                }
                if n <= SMALL_MAX || profile == "unique" {
                    for c in pair_chains() {
                        items.push((profile.to_string(), n, c, 4, 0));
                    }
                }
            }
        }
    } else {
        for profile in tables::PROFILES {
            let is_struct = structural.contains(&profile);
            // value-class profiles do not depend on morsel / chunk boundaries: two sizes and the reduced parallel product
            let sizes: Vec<usize> = if is_struct { QUICK_SMALL.iter().chain(QUICK_LARGE.iter()).copied().collect() } else { vec![2, 8] };
            for n in sizes {
                let mode = if profile == "plain" || n > SMALL_MAX { 1 } else { 2 };
                for c in single_chains() {
                    items.push((profile.to_string(), n, c.clone(), 4, mode));
                }
            }
        }
        // two-operator chains: `plain`, small sizes; parallel runs (reduced product) on two of them
        for n in QUICK_SMALL {
            for c in pair_chains() {
                items.push(("plain".to_string(), n, c, 4, if n == 2 || n == 8 { 2 } else { 3 }));
            }
        }
    }
    // big items first for load balance
    items.sort_by(|a, b| b.1.cmp(&a.1));
    items
}

struct BUnit {
    profile: String,
    n: usize,
    morsel: usize,
    chain: String,
    workers: usize,
    mode: String,
    schedules: Vec<Vec<usize>>,
}
struct SchedPlan {
    units: Vec<BUnit>,
    canonical: u64,
    interleavings: u64,
    inter_sizes: Vec<J>,
    chains: Vec<String>,
}
fn sched_plan(thorough: bool) -> SchedPlan {
    let chains: Vec<&str> = if thorough { vec!["filter", "sort1", "distinct", "agg", "agg-group", "limit:2", "sort1>limit:2", "filter>agg-group", "project>sort2"] } else { vec!["sort1", "distinct", "agg-group", "sort1>limit:2"] };
    let mut units: Vec<BUnit> = vec![];
    let (mut canonical, mut interleavings) = (0u64, 0u64);
    let mut push_canon = |profile: &str, n: usize, morsel: usize, chain: &str, w: usize| {
        let m = n.div_ceil(morsel);
        for assign in vcore::sequences(w, m) {
            let scheds: Vec<Vec<usize>> = sched::permutations(w).iter().map(|p| sched::canonical(&assign, p, w)).collect();
            canonical += scheds.len() as u64;
            units.push(BUnit { profile: profile.into(), n, morsel, chain: chain.into(), workers: w, mode: "canonical".into(), schedules: scheds });
        }
    };
    let mut inter_sizes = vec![];
    if thorough {
        // (profile, n, morsel): 4 morsels each (the last one short for n = 7)
        for (profile, n, morsel) in [("plain", 8usize, 2usize), ("plain", 7, 2), ("unique", 8, 2)] {
            for chain in &chains {
                for w in 1..=3usize {
                    push_canon(profile, n, morsel, chain, w);
                }
            }
        }
        // 4 workers x 6 morsels (the last one short): 4^6 assignments x 4! completion orders
        push_canon("unique", 11, 2, "agg-group", 4);
    } else {
        // every assignment x completion order: 2 workers x 3 morsels (last one short) and 3 workers x 2 morsels, unique keys
        for chain in &chains {
            push_canon("unique", 5, 2, chain, 2);
            push_canon("unique", 4, 2, chain, 3);
        }
    }
    // all interleavings of the gate protocol for the smallest shapes
    // (quick: 3 workers x 2 morsels only in the canonical form above — its 810 interleavings are left to the thorough tier)
    let inter_shapes: Vec<(usize, usize)> = if thorough { vec![(2, 2), (2, 3), (2, 4), (3, 2), (3, 3), (3, 4)] } else { vec![(2, 3)] };
    for (w, m) in &inter_shapes {
        let all = sched::all_interleavings(*w, *m);
        inter_sizes.push(json!({"workers": w, "morsels": m, "release_sequences": all.len()}));
        let pick: Vec<&str> = if thorough {
            if all.len() > 5000 { vec!["sort1", "agg-group"] } else { vec!["sort1", "distinct", "agg-group", "sort1>limit:2"] }
        } else if all.len() > 100 {
            vec!["agg-group"]
        } else {
            chains.clone()
        };
        for chain in pick {
            for block in all.chunks(32) {
                interleavings += block.len() as u64;
                units.push(BUnit { profile: "plain".into(), n: 2 * m, morsel: 2, chain: chain.to_string(), workers: *w, mode: "interleavings".into(), schedules: block.to_vec() });
            }
        }
    }
    SchedPlan { units, canonical, interleavings, inter_sizes, chains: chains.iter().map(|s| s.to_string()).collect() }
}

#[derive(Default)]
struct ShardOut {
    evals: u64,
    skipped: u64,
    nontrivial: Vec<u64>,
    samples: Vec<J>,
    founds: Vec<(Found, u64)>,
}
impl ShardOut {
    fn to_json(&self) -> J {
        json!({
            "evals": self.evals, "skipped": self.skipped,
            "nontrivial": self.nontrivial.iter().map(|h| format!("{h:x}")).collect::<Vec<_>>(),
            "samples": self.samples,
            "founds": self.founds.iter().map(|(f, n)| json!({"sig": f.sig, "boundary": f.boundary, "rank": [f.rank.0, f.rank.1], "case": f.case, "detail": f.detail, "count": n})).collect::<Vec<_>>(),
        })
    }
    fn from_json(v: &J) -> Option<ShardOut> {
        let mut o = ShardOut { evals: v["evals"].as_u64()?, skipped: v["skipped"].as_u64()?, ..Default::default() };
        for h in v["nontrivial"].as_array()? {
            o.nontrivial.push(u64::from_str_radix(h.as_str()?, 16).ok()?);
        }
        o.samples = v["samples"].as_array()?.clone();
        for f in v["founds"].as_array()? {
            let sig: Vec<(String, String)> = f["sig"].as_array()?.iter().map(|p| Some((p[0].as_str()?.to_string(), p[1].as_str()?.to_string()))).collect::<Option<_>>()?;
            o.founds.push((Found { sig, boundary: f["boundary"].as_str()?.into(), rank: (f["rank"][0].as_u64()? as usize, f["rank"][1].as_u64()? as usize), case: f["case"].clone(), detail: f["detail"].as_str()?.into() }, f["count"].as_u64()?));
        }
        Some(o)
    }
    fn absorb(&mut self, o: ShardOut) {
        self.evals += o.evals;
        self.skipped += o.skipped;
        self.nontrivial.extend(o.nontrivial);
        for s in o.samples {
            if self.samples.len() < 2 {
                self.samples.push(s);
            }
        }
        self.founds.extend(o.founds);
    }
}

fn run_cfg_shard(items: &[Item], shard: usize, nshards: usize, jobs: usize, thorough: bool, scratch: &Path) -> ShardOut {
    let mine: Vec<&Item> = items.iter().enumerate().filter(|(i, _)| i % nshards == shard).map(|(_, x)| x).collect();
    let outs = vcore::par_map(&mine, jobs, |_, (p, n, c, wm, mode)| run_config_item(p, *n, c, *wm, thorough, *mode, scratch));
    let mut so = ShardOut::default();
    let mut agg = Agg::default();
    for o in outs {
        so.evals += o.evals;
        so.skipped += o.skipped;
        so.nontrivial.extend(o.nontrivial);
        if let Some(s) = o.sample {
            if so.samples.len() < 2 {
                so.samples.push(s);
            }
        }
        for (f, k) in o.founds {
            agg.add_n(f, k);
        }
    }
    so.founds = agg.m.into_values().collect();
    so
}

fn run_sched_shard(plan: &SchedPlan, shard: usize, nshards: usize, jobs: usize) -> ShardOut {
    let mine: Vec<&BUnit> = plan.units.iter().enumerate().filter(|(i, _)| i % nshards == shard).map(|(_, x)| x).collect();
    let mut so = ShardOut::default();
    let mut agg = Agg::default();
    // one-worker baseline per (table, chain)
    let mut baselines: BTreeMap<(String, usize, usize, String), Option<Rows>> = BTreeMap::new();
    for u in &mine {
        let key = (u.profile.clone(), u.n, u.morsel, u.chain.clone());
        if !baselines.contains_key(&key) {
            let m = u.n.div_ceil(u.morsel);
            let c = sched::SCase { profile: u.profile.clone(), n: u.n, chain: u.chain.clone(), morsel: u.morsel, workers: 1, schedule: sched::canonical(&vec![0; m], &[0], 1), mode: "canonical".into() };
            let o = sched::run_schedule(&c);
            for f in o.founds {
                agg.add(f);
            }
            baselines.insert(key, o.merged);
        }
    }
    let outs = vcore::par_map(&mine, jobs, |_, u| {
        let chain = model::parse_chain(&u.chain).unwrap();
        let base = baselines.get(&(u.profile.clone(), u.n, u.morsel, u.chain.clone())).cloned().flatten();
        let mut founds = vec![];
        let mut nt = vec![];
        let mut evals = 0u64;
        for s in &u.schedules {
            let c = sched::SCase { profile: u.profile.clone(), n: u.n, chain: u.chain.clone(), morsel: u.morsel, workers: u.workers, schedule: s.clone(), mode: u.mode.clone() };
            let o = sched::run_schedule(&c);
            evals += 1;
            let mut ws: Vec<usize> = o.assignment.iter().map(|x| x.0).collect();
            ws.sort();
            ws.dedup();
            if ws.len() >= 2 {
                nt.push(vcore::hash_of(&(&u.profile, u.n, &u.chain, u.workers, s)));
            }
            if let (Some(b), Some(g)) = (&base, &o.merged) {
                if o.founds.is_empty() && model::is_exact_chain(&chain) {
                    let same = if u.profile == "unique" && matches!(chain.last(), Some(Op::Sort(_))) {
                        b.iter().map(|r| model::canon_row(r)).eq(g.iter().map(|r| model::canon_row(r)))
                    } else {
                        model::multiset(&model::norm_rows(b, &chain, false)) == model::multiset(&model::norm_rows(g, &chain, false))
                    };
                    if !same {
                        let sig = vec![("layer", "B-sched".to_string()), ("strategy", "parallel-gated".into()), ("chain", model::chain_sig(&chain)), ("kind", "schedules-disagree".to_string()), ("profile", u.profile.clone())];
                        founds.push(found(&sig, &format!("W{}xM{}", u.workers, u.n.div_ceil(u.morsel)), u.n, u.workers, c.json(), format!("result {} differs from the one-worker result {}", model::show_rows(g, 8), model::show_rows(b, 8))));
                    }
                }
            }
            founds.extend(o.founds);
        }
        (evals, nt, founds)
    });
    for (e, nt, f) in outs {
        so.evals += e;
        so.nontrivial.extend(nt);
        for x in f {
            agg.add(x);
        }
    }
    so.founds = agg.m.into_values().collect();
    so
}

/// Thread creation is the dominant cost of the ParallelPipeline runs (every execute() spawns its workers) and
/// it serialises on the address space of a process: the thread-heavy parts are therefore sharded over child
/// processes of this same binary (C17_CHILD=i/n:outfile), each running its share sequentially.
fn run_sharded(tier: Tier, nshards: usize, parts_env: &str, scratch: &Path) -> (ShardOut, ShardOut) {
    let exe = std::env::current_exe().unwrap_or_else(|e| vcore::machinery_failure(&format!("current_exe: {e}")));
    let mut children = vec![];
    for i in 0..nshards {
        let outfile = scratch.join(format!("shard-{i}.json"));
        let child = std::process::Command::new(&exe)
            .args(["--tier", tier.as_str()])
            .env("C17_CHILD", format!("{i}/{nshards}:{}", outfile.display()))
            .env("C17_PARTS", parts_env)
            .stdout(std::process::Stdio::null())
            .spawn()
            .unwrap_or_else(|e| vcore::machinery_failure(&format!("cannot spawn shard process: {e}")));
        children.push((child, outfile));
    }
    let (mut cfg, mut sch) = (ShardOut::default(), ShardOut::default());
    for (mut child, outfile) in children {
        let st = child.wait().unwrap_or_else(|e| vcore::machinery_failure(&format!("shard wait: {e}")));
        if !st.success() {
            vcore::machinery_failure(&format!("shard process failed: {st}"));
        }
        let txt = std::fs::read_to_string(&outfile).unwrap_or_else(|e| vcore::machinery_failure(&format!("shard output: {e}")));
        let v: J = serde_json::from_str(&txt).unwrap_or_else(|e| vcore::machinery_failure(&format!("shard json: {e}")));
        cfg.absorb(ShardOut::from_json(&v["cfg"]).unwrap_or_else(|| vcore::machinery_failure("shard cfg output malformed")));
        sch.absorb(ShardOut::from_json(&v["sched"]).unwrap_or_else(|| vcore::machinery_failure("shard sched output malformed")));
        let _ = std::fs::remove_file(&outfile);
    }
    (cfg, sch)
}

fn run(args: vcore::Args) -> i32 {
    let tier = args.tier;
    let thorough = tier == Tier::Thorough;
    let parts_env = std::env::var("C17_PARTS").unwrap_or_else(|_| "cfg,spill,merge,morsel,sched".into());
    let on = |p: &str| parts_env.split(',').any(|x| x == p);

    // ---- shard process ------------------------------------------------------
    if let Ok(spec) = std::env::var("C17_CHILD") {
        let (ij, outfile) = spec.split_once(':').unwrap_or_else(|| vcore::machinery_failure("bad C17_CHILD"));
        let (i, n) = ij.split_once('/').unwrap_or_else(|| vcore::machinery_failure("bad C17_CHILD"));
        let (i, n): (usize, usize) = (i.parse().unwrap_or(0), n.parse().unwrap_or(1));
        let scratch = vcore::scratch_dir("c17-shard");
        let items = if on("cfg") { cfg_items(thorough) } else { vec![] };
        let cfg = run_cfg_shard(&items, i, n, 1, thorough, &scratch);
        let mut plan = sched_plan(thorough);
        if !on("sched") {
            plan.units.clear();
        }
        let sch = run_sched_shard(&plan, i, n, 1);
        let _ = std::fs::remove_dir_all(&scratch);
        std::fs::write(outfile, serde_json::to_string(&json!({"cfg": cfg.to_json(), "sched": sch.to_json()})).unwrap()).unwrap_or_else(|e| vcore::machinery_failure(&format!("shard write: {e}")));
        return 0;
    }

    let scratch = vcore::scratch_dir("c17");
    if let Some(p) = args.replay.as_deref() {
        let case = vcore::read_replay_case(p);
        let rc = replay(&case, &scratch);
        let _ = std::fs::remove_dir_all(&scratch);
        return rc;
    }
    // debugging aid: time every configuration of one item, e.g. C17_ONLY=unique:2049:sort1
    if let Ok(only) = std::env::var("C17_ONLY") {
        let p: Vec<&str> = only.split(':').collect();
        let (profile, n, chain) = (p[0], p[1].parse::<usize>().unwrap(), model::parse_chain(&p[2..].join(":")).unwrap());
        let input = tables::table(profile, n);
        let mut cache = model::Cache::default();
        let (tags, _) = strategy_tags(&chain, n, tier.pick(4, 16), thorough, if thorough { 0 } else { 1 });
        for t in tags {
            let t0 = std::time::Instant::now();
            let (f, _) = run_config_case(profile, n, &input, &mut cache, &chain, &t, 0, &scratch);
            println!("{:>9.3} ms  {t}  {}", t0.elapsed().as_secs_f64() * 1e3, f.iter().map(|x| x.key()).collect::<Vec<_>>().join(" | "));
        }
        let _ = std::fs::remove_dir_all(&scratch);
        return 0;
    }
    let mut rep = Report::new("C17", tier, "exploration");
    rep.rule = "Part A: every (table profile x size x operator chain) is executed under every strategy configuration (pull tree, push Pipeline, tracked/materialising/spilling push operators, ParallelPipeline x source layout x morsel size x chunk size x workers + merge phase with the helpers of parallel/merge.rs) and judged against a plain-Rust reference on rows plus agreement with the pull result; ExternalSort / PartitionedState under every budget; merge helpers on all 3^n splits of every small input. Part B: every assignment of morsels to workers x every completion order (and all interleavings of the gate protocol for the smallest shapes) is forced on the real threaded ParallelPipeline through gates in the harness-supplied source/factory. A case is distinct by (profile, size, chain, configuration) resp. (helper, alphabet, input, split) resp. (chain, table, schedule); non-trivial when the table has >= 2 rows and the reference result is non-empty (A), the input has >= 2 elements in >= 2 runs (merge), >= 2 workers got a morsel (B)".into();
    let mut agg = Agg::default();
    let cores = vcore::cores();
    let verbose = std::env::var("C17_VERBOSE").is_ok();
    let mut ran: BTreeMap<(String, String), std::collections::BTreeSet<String>> = BTreeMap::new();

    // ---- Part A: spill engines --------------------------------------------
    let t0 = std::time::Instant::now();
    let ext = if on("spill") { spillx::ext_cases(thorough) } else { vec![] };
    let outs = vcore::par_map(&ext, cores, |_, c| spillx::run_ext(c, &scratch));
    for (c, o) in ext.iter().zip(outs) {
        ran.entry(("A-spill".to_string(), c.keys.clone())).or_default().insert(c.profile.clone());
        rep.evaluations += 1;
        if c.n >= 2 && c.run_len > 0 && c.n.div_ceil(c.run_len) >= 2 {
            rep.nontrivial(&("ext", &c.profile, c.n, &c.keys, c.run_len, c.mem_last));
        }
        for f in o {
            agg.add(f);
        }
    }
    let parts = if on("spill") { spillx::part_cases(thorough) } else { vec![] };
    let outs = vcore::par_map(&parts, cores, |_, c| spillx::run_part(c, &scratch));
    for (c, o) in parts.iter().zip(outs) {
        ran.entry(("A-spill".to_string(), "group-accumulate".to_string())).or_default().insert(c.profile.clone());
        rep.evaluations += 1;
        if c.n >= 2 && c.policy != "never" {
            rep.nontrivial(&("part", &c.profile, c.n, c.partitions, &c.policy, c.two_col_key));
        }
        for f in o {
            agg.add(f);
        }
    }
    let t_spill = t0.elapsed().as_secs_f64();

    // ---- Part A: merge helpers on all splits --------------------------------
    let t0 = std::time::Instant::now();
    let units = if on("merge") { mergex::units(thorough) } else { vec![] };
    let outs = vcore::par_map(&units, cores, |_, (helper, alpha, keys, syms)| {
        let mut founds = vec![];
        let mut evals = 0u64;
        let mut nt = vec![];
        for assign in mergex::assignments(syms.len()) {
            let c = mergex::MCase { helper: helper.clone(), alphabet: alpha.clone(), keys: *keys, syms: syms.clone(), assign };
            founds.extend(mergex::run_case(&c));
            evals += 1;
            let mut used = c.assign.clone();
            used.sort();
            used.dedup();
            if syms.len() >= 2 && used.len() >= 2 {
                nt.push(vcore::hash_of(&(helper, alpha, keys, syms, &c.assign)));
            }
        }
        let mut a = Agg::default();
        for f in founds {
            a.add(f);
        }
        (evals, nt, a.m.into_values().collect::<Vec<_>>())
    });
    let mut merge_evals = 0u64;
    for (e, nt, f) in outs {
        rep.evaluations += e;
        merge_evals += e;
        for h in nt {
            rep.nontrivial_hash(h);
        }
        for (x, k) in f {
            agg.add_n(x, k);
        }
    }
    let t_merge = t0.elapsed().as_secs_f64();

    // ---- Part A: morsel generation and the scheduler API, sequentially ------------
    let mut morsel_evals = 0u64;
    if on("morsel") {
        let (e1, n1, f1) = schedapi::morsel_cover(tier.pick(40, 80));
        let (e2, n2, f2) = schedapi::scheduler_all(tier.pick(3, 4), 4);
        morsel_evals = e1 + e2;
        rep.evaluations += e1 + e2;
        rep.nontrivial(&("morsel-cases", n1));
        rep.nontrivial(&("scheduler-cases-with-stealing", n2));
        rep.set("nontrivial_morsel_and_scheduler_cases", json!(n1 + n2));
        for f in f1.into_iter().chain(f2) {
            agg.add(f);
        }
    }

    // ---- Part A configuration product and Part B schedules (thread-heavy) -------
    let t0 = std::time::Instant::now();
    let items = if on("cfg") { cfg_items(thorough) } else { vec![] };
    let cfg_tables: std::collections::BTreeSet<(String, usize)> = items.iter().map(|i| (i.0.clone(), i.1)).collect();
    for (p, _, c, _, _) in &items {
        ran.entry(("A-config".to_string(), model::chain_sig(c))).or_default().insert(p.clone());
    }
    let mut plan = sched_plan(thorough);
    if !on("sched") {
        plan.units.clear();
    }
    for u in &plan.units {
        ran.entry(("B-sched".to_string(), model::chain_sig(&model::parse_chain(&u.chain).unwrap()))).or_default().insert(u.profile.clone());
    }
    let in_process = std::env::var("C17_INPROCESS").is_ok();
    let (cfg, sch) = if in_process {
        (run_cfg_shard(&items, 0, 1, cores, thorough, &scratch), run_sched_shard(&plan, 0, 1, cores))
    } else {
        run_sharded(tier, if thorough { cores } else { cores.min(8) }, &parts_env, &scratch)
    };
    let t_threads = t0.elapsed().as_secs_f64();
    if verbose {
        eprintln!("spill {t_spill:.1}s merge {t_merge:.1}s config+schedules {t_threads:.1}s ({} + {} evaluations)", cfg.evals, sch.evals);
    }
    let (cfg_evals, sched_evals, skipped) = (cfg.evals, sch.evals, cfg.skipped);
    for so in [cfg, sch] {
        rep.evaluations += so.evals;
        for h in so.nontrivial {
            rep.nontrivial_hash(h);
        }
        for s in so.samples {
            rep.sample(s);
        }
        for (f, k) in so.founds {
            agg.add_n(f, k);
        }
    }
    // samples of the other parts
    if let Some(c) = ext.iter().find(|c| c.n == 33 && c.run_len == 7 && c.mem_last) {
        rep.sample(c.json());
    }
    if let Some(c) = parts.iter().find(|c| c.n >= 30 && c.policy == "lru" && c.partitions == 2) {
        rep.sample(c.json());
    }
    rep.sample(mergex::MCase { helper: "sorted-runs".into(), alphabet: "int".into(), keys: 2, syms: vec![0, 1, 1, 3], assign: vec![0, 1, 2, 1] }.json());
    rep.sample(sched::SCase { profile: "plain".into(), n: 7, chain: "agg-group".into(), morsel: 2, workers: 3, schedule: sched::canonical(&[2, 0, 2, 1], &[1, 2, 0], 3), mode: "canonical".into() }.json());

    // ---- wrap up --------------------------------------------------------------
    let left = strat::leftovers(&scratch);
    let _ = std::fs::remove_dir_all(&scratch);
    if let Some(l) = left {
        // every per-case directory is removed by its case; anything left is a harness bug
        eprintln!("note: scratch directory not empty at the end: {l}");
    }
    rep.set(
        "bounds",
        json!({
            "profiles": tables::PROFILES, "sizes_small": if thorough { SMALL_SIZES.to_vec() } else { QUICK_SMALL.to_vec() }, "sizes_large": if thorough { LARGE_SIZES.to_vec() } else { QUICK_LARGE.to_vec() }, "sizes_value_class_profiles": if thorough { "all" } else { "2, 8" },
            "single_chains": single_chains().iter().map(|c| model::chain_name(c)).collect::<Vec<_>>(),
            "pair_chains": pair_chains().iter().map(|c| model::chain_name(c)).collect::<Vec<_>>(), "config_items": items.len(), "config_tables": cfg_tables.len(),
            "workers": if thorough { "1..16 for single operators on plain/unique, 1..4 elsewhere" } else { "{1,3}" },
            "layouts_small": layouts(1, thorough).iter().map(|l| l.tag()).collect::<Vec<_>>(), "layouts_large": layouts(2048, thorough).iter().map(|l| l.tag()).collect::<Vec<_>>(),
            "spill_thresholds_small": [1, 2, 7, 1000000], "spill_thresholds_large": [1, 64, 1000, 1000000],
            "morsel_sizes_small": ["critical(1024)", "forced 1", "forced 7", "forced n", "forced n+1"], "morsel_sizes_large": ["critical(1024)", "normal(65536)", "forced n", "forced n+1", "thorough: forced 7"], "parallel_chunk_sizes": [1, 3, 2048],
            "max_run_files_per_sort": 200, "spill_configs_skipped_by_run_bound": skipped,
            "merge_helper_max_len": tier.pick(json!({"sorted": 3, "accumulator": 3, "distinct": 3}), json!({"sorted": 6, "accumulator": 6, "distinct": 5})), "merge_runs": 3,
            "morsel_cover": tier.pick("total 0..40 x morsel size 0..41", "total 0..80 x morsel size 0..81"), "scheduler_api": tier.pick("workers 1..3 x morsels 0..4 x every placement (global/local queue) x every get_work order x NUMA on/off", "workers 1..4 x morsels 0..4 x ..."),
            "schedule_chains": plan.chains,
            "schedule_shapes_canonical": if thorough { "workers 1..3 x 4 morsels (9 chains x 3 tables); 4 workers x 6 morsels (agg-group on unique/11)" } else { "2 workers x 3 morsels, 3 workers x 2 morsels (4 chains)" },
            "schedule_interleavings": plan.inter_sizes,
        }),
    );
    rep.set("evaluations_config_product", json!(cfg_evals));
    rep.set("evaluations_spill_engines", json!(ext.len() + parts.len()));
    rep.set("evaluations_merge_helpers", json!(merge_evals));
    rep.set("evaluations_schedules", json!(sched_evals));
    rep.set("evaluations_morsel_and_scheduler_api", json!(morsel_evals));
    rep.set("schedules_canonical", json!(plan.canonical));
    rep.set("schedules_interleavings", json!(plan.interleavings));
    rep.set("wall_s_parts", json!({"spill": t_spill, "merge": t_merge, "config_and_schedules": t_threads}));
    rep.set("not_reachable", json!("parallel/fold.rs needs a rayon ParallelIterator; rayon is not a dependency of the harness and grafeo-core does not re-export it"));
    rep.assumptions.push("sort keys are homogeneous per column (plus NULL): the comparators of the anchored files return Equal for mixed types, which is not a total order".into());
    rep.assumptions.push("NULL placement of a descending key follows the convention shared by all four sort implementations (flag applied before the direction reversal)".into());
    rep.assumptions.push("ParallelPipeline results are judged after the documented merge phase (merge_sorted_chunks / merge_distinct_results / MergeableAccumulator / concat + global limit)".into());
    let raw_signatures = agg.m.len();
    let pair_names: Vec<String> = {
        let mut p: Vec<String> = pair_chains().iter().map(|c| model::chain_sig(c)).collect();
        p.sort();
        p.dedup();
        p
    };
    let condensed = condense(agg.m.into_values().collect(), &ran, &pair_names);
    rep.set("failing_signatures_before_condensation", json!(raw_signatures));
    for (f, n) in condensed {
        rep.violation(f.violation(n));
    }
    rep.finish()
}
