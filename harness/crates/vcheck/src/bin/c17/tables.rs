//! Input tables: four columns (k = sort/group key, v = aggregated value,
//! s = payload, i = filter/arithmetic column), generated deterministically from
//! (profile, size).  Periodic profiles repeat 12 rows, so they are full of duplicate
//! rows and duplicate / NULL keys; `unique` has pairwise different keys.
use crate::model::{Row, Rows};
use grafeo_common::types::Value;
use std::sync::Arc;

pub const WIDTH: usize = 4;
pub const PROFILES: [&str; 6] = ["plain", "unique", "floatkey", "strkey", "nullbool", "exotic"];

fn int(i: i64) -> Value {
    Value::Int64(i)
}
fn st(s: &str) -> Value {
    Value::from(s)
}
fn fl(f: f64) -> Value {
    Value::Float64(f)
}
fn list(v: &[i64]) -> Value {
    Value::List(Arc::from(v.iter().map(|i| Value::Int64(*i)).collect::<Vec<_>>()))
}
const N: Value = Value::Null;

fn icol(j: usize) -> Value {
    if j == 5 { N } else { int((j % 7) as i64) }
}

pub fn row(profile: &str, r: usize) -> Row {
    let j = (r * 7 + 3) % 12;
    match profile {
        "plain" => {
            let k = [N, int(3), int(1), int(2), int(1), int(0), int(3), N, int(2), int(0), int(1), int(3)];
            let v = [int(5), N, int(1), int(4), int(4), int(2), N, int(0), int(3), int(7), int(1), int(6)];
            let s = [st("a"), st("b"), N, st(""), st("a"), st("c"), st("b"), st("a"), N, st("d"), st("e"), st("")];
            vec![k[j].clone(), v[j].clone(), s[j].clone(), icol(j)]
        }
        "unique" => vec![
            int(((r as i64) * 7919) % 2053),
            if r % 5 == 4 { N } else { int(((r * 13) % 11) as i64) },
            st(&format!("s{}", r % 3)),
            if r % 9 == 8 { N } else { int((r % 7) as i64) },
        ],
        "floatkey" => {
            let k = [fl(1.5), N, fl(0.5), fl(2.5), fl(1.5), fl(-0.5), fl(2.5), fl(0.5), N, fl(3.0), fl(1.5), fl(0.5)];
            let v = [fl(0.5), N, fl(1.5), fl(4.0), fl(-2.5), fl(2.0), N, fl(0.5), fl(3.5), fl(7.0), fl(1.0), fl(6.5)];
            let s = [st("a"), st("b"), N, st(""), st("a"), st("c"), st("b"), st("a"), N, st("d"), st("e"), st("")];
            vec![k[j].clone(), v[j].clone(), s[j].clone(), icol(j)]
        }
        "strkey" => {
            let k = [st("b"), N, st("a"), st(""), st("b"), st("c"), st("a"), st("B"), N, st("ab"), st("b"), st("a")];
            let v = [int(5), N, int(1), int(4), int(4), int(2), N, int(0), int(3), int(7), int(1), int(6)];
            let s = [st("x"), st("y"), N, st(""), st("x"), st("z"), st("y"), st("x"), N, st("w"), st("u"), st("")];
            vec![k[j].clone(), v[j].clone(), s[j].clone(), icol(j)]
        }
        "nullbool" => {
            let b = |x: bool| Value::Bool(x);
            let k = [N, b(false), b(true), b(false), N, b(true), b(false), N, b(true), b(true), b(false), N];
            let v = [int(5), N, int(1), int(4), int(4), int(2), N, int(0), int(3), int(7), int(1), int(6)];
            // identical in every row, so that DISTINCT depends on k alone
            vec![k[j].clone(), v[j % 2].clone(), st("p"), int(3)]
        }
        "exotic" => {
            let k = [list(&[1]), list(&[2]), N, list(&[1, 2])];
            let mut m = std::collections::BTreeMap::new();
            m.insert(grafeo_common::types::PropertyKey::from("a"), int(1));
            let s = [
                N,
                Value::Bool(false),
                Value::Bool(true),
                int(0),
                fl(0.5),
                st("x"),
                list(&[1]),
                list(&[2]),
                Value::Bytes(Arc::from(vec![1u8, 2, 3])),
                Value::Map(Arc::new(m)),
                Value::Vector(Arc::from(vec![1.0f32, 2.0])),
                st(""),
            ];
            vec![k[j % 4].clone(), int((j % 3) as i64), s[j].clone(), icol(j)]
        }
        _ => panic!("unknown profile {profile}"),
    }
}

pub fn table(profile: &str, n: usize) -> Rows {
    (0..n).map(|r| row(profile, r)).collect()
}

pub fn size_tag(n: usize) -> String {
    match n {
        0 => "size-0".into(),
        1 => "size-1".into(),
        2 => "size-2".into(),
        1023 => "morsel-1".into(),
        1024 => "morsel".into(),
        1025 => "morsel+1".into(),
        n => format!("size-{n}"),
    }
}
