//! Sequential, exhaustive use of parallel/morsel.rs and parallel/scheduler.rs:
//! morsels cover the source exactly once; every submitted morsel is handed out exactly
//! once whatever queue it sits in and whoever asks (global queue, local queues, stealing).
use crate::{Found, found};
use grafeo_core::execution::parallel::{self as par, Morsel, MorselScheduler, NumaConfig, WorkerHandle};
use serde_json::json;
use std::sync::Arc;

fn sig(chain: &str, kind: &str) -> Vec<(&'static str, String)> {
    vec![("layer", "A-morsel".to_string()), ("strategy", "scheduler-api".into()), ("chain", chain.into()), ("kind", kind.into()), ("profile", "-".into())]
}

pub fn morsel_cover(max_total: usize) -> (u64, u64, Vec<Found>) {
    let mut out = vec![];
    let (mut evals, mut nontrivial) = (0u64, 0u64);
    for total in 0..=max_total {
        for size in 0..=max_total + 1 {
            evals += 1;
            let case = json!({"part":"A-morsel","what":"generate_morsels","total":total,"size":size});
            let ms = par::generate_morsels(total, size, 3);
            if size == 0 {
                if !ms.is_empty() {
                    out.push(found(&sig("generate_morsels", "extra-rows"), "morsel-size-0", total, size, case, format!("{} morsels for morsel size 0", ms.len())));
                }
                continue;
            }
            if ms.len() >= 2 {
                nontrivial += 1;
            }
            let mut pos = 0usize;
            let mut bad = None;
            for (i, m) in ms.iter().enumerate() {
                if m.id != i || m.source_id != 3 || m.start_row != pos || m.end_row <= m.start_row || m.row_count() > size || (i + 1 < ms.len() && m.row_count() != size) {
                    bad = Some(format!("morsel {i} = {m:?} after position {pos}"));
                    break;
                }
                pos = m.end_row;
            }
            if bad.is_none() && pos != total {
                bad = Some(format!("morsels end at {pos}, source has {total} rows"));
            }
            if let Some(b) = bad {
                out.push(found(&sig("generate_morsels", if pos < total { "missing-rows" } else { "extra-rows" }), &format!("total-{total}/morsel-{size}"), total, size, case, b));
            }
            // split_at: the two halves tile the morsel
            if let Some(m) = ms.first().copied() {
                for off in 0..=m.row_count() + 1 {
                    evals += 1;
                    match m.split_at(off) {
                        None => {
                            if off > 0 && off < m.row_count() {
                                out.push(found(&sig("split_at", "missing-rows"), "split", total, off, json!({"part":"A-morsel","what":"split_at","total":total,"size":size,"off":off}), format!("{m:?}.split_at({off}) = None")));
                            }
                        }
                        Some((a, b)) => {
                            if a.start_row != m.start_row || a.end_row != b.start_row || b.end_row != m.end_row || a.is_empty() || b.is_empty() {
                                out.push(found(&sig("split_at", "wrong-rows"), "split", total, off, json!({"part":"A-morsel","what":"split_at","total":total,"size":size,"off":off}), format!("{m:?}.split_at({off}) = {a:?} / {b:?}")));
                            }
                        }
                    }
                }
            }
        }
    }
    (evals, nontrivial, out)
}

/// placement[i] = 0: global queue, k+1: local queue of worker k; order[i] = worker making the i-th get_work call
pub fn scheduler_case(workers: usize, numa: bool, placement: &[usize], order: &[usize]) -> Option<(&'static str, String)> {
    let m = placement.len();
    let sched = Arc::new(if numa { MorselScheduler::with_numa_config(workers, NumaConfig::with_topology(2, workers.div_ceil(2).max(1))) } else { MorselScheduler::new(workers) });
    let handles: Vec<WorkerHandle> = (0..workers).map(|_| WorkerHandle::new(Arc::clone(&sched))).collect();
    for (i, p) in placement.iter().enumerate() {
        let mo = Morsel::new(i, 0, i * 10, i * 10 + 10);
        if *p == 0 {
            sched.submit(mo);
        } else {
            handles[*p - 1].push_local(mo);
        }
    }
    sched.finish_submission();
    if sched.active_count() != m || (m > 0 && sched.is_done()) {
        return Some(("wrong-rows", format!("after submission: active {} done {}", sched.active_count(), sched.is_done())));
    }
    let mut got = vec![];
    for w in order {
        match handles[*w].get_work() {
            Some(mo) => {
                got.push(mo.id);
                handles[*w].complete_morsel();
            }
            None => return Some(("missing-rows", format!("worker {w} got no work although only {} of {m} morsels were handed out ({got:?})", got.len()))),
        }
    }
    let mut sorted = got.clone();
    sorted.sort();
    if sorted != (0..m).collect::<Vec<_>>() {
        return Some(("wrong-rows", format!("morsels handed out: {got:?}")));
    }
    for (w, h) in handles.iter().enumerate() {
        if let Some(mo) = h.get_work() {
            return Some(("extra-rows", format!("worker {w} got {mo:?} after all {m} morsels were handed out")));
        }
    }
    if !sched.is_done() || sched.active_count() != 0 || !handles.iter().all(|h| h.is_done()) {
        return Some(("wrong-rows", format!("after completion: active {} done {}", sched.active_count(), sched.is_done())));
    }
    None
}

pub fn scheduler_all(max_workers: usize, max_morsels: usize) -> (u64, u64, Vec<Found>) {
    let mut out = vec![];
    let (mut evals, mut nontrivial) = (0u64, 0u64);
    for workers in 1..=max_workers {
        for m in 0..=max_morsels {
            for placement in vcore::sequences(workers + 1, m) {
                for order in vcore::sequences(workers, m) {
                    for numa in [false, true] {
                        evals += 1;
                        let stolen = placement.iter().zip(&order).any(|(p, w)| *p != 0 && *p - 1 != *w);
                        if stolen {
                            nontrivial += 1;
                        }
                        let case = json!({"part":"A-morsel","what":"scheduler","workers":workers,"numa":numa,"placement":placement,"order":order});
                        match vcore::catch(|| scheduler_case(workers, numa, &placement, &order)) {
                            Err(p) => out.push(found(&sig("scheduler", "panic"), &format!("W{workers}xM{m}"), m, workers, case, p)),
                            Ok(Some((k, d))) => out.push(found(&sig("scheduler", k), &format!("W{workers}xM{m}"), m, workers, case, d)),
                            Ok(None) => {}
                        }
                    }
                }
            }
        }
    }
    (evals, nontrivial, out)
}

pub fn replay(case: &serde_json::Value) -> Vec<Found> {
    let arr = |x: &serde_json::Value| -> Vec<usize> { x.as_array().map(|a| a.iter().filter_map(|n| n.as_u64().map(|n| n as usize)).collect()).unwrap_or_default() };
    match case["what"].as_str() {
        Some("scheduler") => {
            let (w, numa, placement, order) = (case["workers"].as_u64().unwrap_or(1) as usize, case["numa"].as_bool().unwrap_or(false), arr(&case["placement"]), arr(&case["order"]));
            match vcore::catch(|| scheduler_case(w, numa, &placement, &order)) {
                Err(p) => vec![found(&sig("scheduler", "panic"), "replay", 0, 0, case.clone(), p)],
                Ok(Some((k, d))) => vec![found(&sig("scheduler", k), "replay", 0, 0, case.clone(), d)],
                Ok(None) => vec![],
            }
        }
        _ => {
            let total = case["total"].as_u64().unwrap_or(0) as usize;
            morsel_cover(total).2.into_iter().filter(|f| f.case["total"] == case["total"] && f.case["size"] == case["size"]).collect()
        }
    }
}
