//! Part B — schedules of `ParallelPipeline::execute` on the real threaded code.
//!
//! The harness supplies the `ParallelSource` and the `OperatorChainFactory`; every
//! worker thread parks on a gate (Mutex + Condvar)
//!   * in `create_chain()`        — before it has asked the scheduler for anything,
//!   * in `create_partition(m)`   — holding morsel `m`, not yet processed,
//!   * in the first operator's `finalize()` — all its morsels processed, nothing appended yet,
//! and reports `Done` from the wrapper's `Drop` (which runs after the worker appended
//! its chunks to the shared result vector).  The controller releases exactly one
//! parked worker at a time, so a *schedule* is the sequence of released workers.
use crate::model::{self, Op, Rows};
use crate::strat::{self, MergeKind, PushVariant};
use crate::tables;
use crate::{Found, found};
use grafeo_core::execution::operators::OperatorError;
use grafeo_core::execution::parallel::{self as par, Morsel, OperatorChainFactory, ParallelPipeline, ParallelSource};
use grafeo_core::execution::pipeline::{ChunkSizeHint, PushOperator, Sink, Source};
use grafeo_core::execution::DataChunk;
use serde_json::json;
use std::collections::HashMap;
use std::sync::{Arc, Condvar, Mutex};
use std::thread::ThreadId;
use std::time::{Duration, Instant};

const GATE_TIMEOUT: Duration = Duration::from_secs(60);

#[derive(Clone, Copy, PartialEq, Debug)]
pub enum Ph {
    AtStart,
    Running,
    Holding(usize),
    AtFinalize,
    Done,
}

struct St {
    tid2w: HashMap<ThreadId, usize>,
    phase: Vec<Ph>,
    permit: Option<usize>,
    /// gates are open (after the schedule, or to unwind after a divergence)
    free: bool,
    /// (worker, morsel id) in the order the morsels were actually handed out
    log: Vec<(usize, usize)>,
}
pub struct Ctl {
    st: Mutex<St>,
    cv: Condvar,
}
impl Ctl {
    fn new() -> Self {
        Ctl { st: Mutex::new(St { tid2w: HashMap::new(), phase: vec![], permit: None, free: false, log: vec![] }), cv: Condvar::new() }
    }
    fn timeout(what: &str) -> ! {
        vcore::machinery_failure(&format!("C17 part B: gate timeout ({what}) — harness deadlock, no verdict"))
    }
    /// worker side: park in phase `ph` until released
    fn park(&self, ph: Ph) {
        let tid = std::thread::current().id();
        let mut g = self.st.lock().unwrap();
        let w = match g.tid2w.get(&tid) {
            Some(w) => *w,
            None => {
                let w = g.phase.len();
                g.tid2w.insert(tid, w);
                g.phase.push(ph);
                w
            }
        };
        g.phase[w] = ph;
        if let Ph::Holding(m) = ph {
            g.log.push((w, m));
        }
        self.cv.notify_all();
        let deadline = Instant::now() + GATE_TIMEOUT;
        loop {
            if g.free {
                break;
            }
            if g.permit == Some(w) {
                g.permit = None;
                break;
            }
            let now = Instant::now();
            if now >= deadline {
                Self::timeout("worker waiting for release");
            }
            g = self.cv.wait_timeout(g, deadline - now).unwrap().0;
        }
        g.phase[w] = Ph::Running;
        self.cv.notify_all();
    }
    fn done(&self) {
        let tid = std::thread::current().id();
        let mut g = self.st.lock().unwrap();
        if let Some(w) = g.tid2w.get(&tid).copied() {
            g.phase[w] = Ph::Done;
        }
        self.cv.notify_all();
    }
    /// controller: wait until `n` workers exist and none is running
    fn wait_parked(&self, n: usize) {
        let mut g = self.st.lock().unwrap();
        let deadline = Instant::now() + GATE_TIMEOUT;
        while g.phase.len() < n || g.phase.iter().any(|p| *p == Ph::Running) {
            let now = Instant::now();
            if now >= deadline {
                Self::timeout("controller waiting for workers to park");
            }
            g = self.cv.wait_timeout(g, deadline - now).unwrap().0;
        }
    }
    /// controller: release worker `w`, wait until it parks again (or is done); returns its new phase
    fn release(&self, w: usize) -> Ph {
        let mut g = self.st.lock().unwrap();
        g.permit = Some(w);
        self.cv.notify_all();
        let deadline = Instant::now() + GATE_TIMEOUT;
        while g.permit.is_some() || g.phase[w] == Ph::Running {
            let now = Instant::now();
            if now >= deadline {
                Self::timeout("controller waiting for the released worker");
            }
            g = self.cv.wait_timeout(g, deadline - now).unwrap().0;
        }
        g.phase[w]
    }
    fn open(&self) {
        let mut g = self.st.lock().unwrap();
        g.free = true;
        self.cv.notify_all();
    }
    fn log(&self) -> Vec<(usize, usize)> {
        self.st.lock().unwrap().log.clone()
    }
}

struct GatedSource {
    inner: Box<dyn ParallelSource>,
    morsel: usize,
    ctl: Arc<Ctl>,
}
impl Source for GatedSource {
    fn next_chunk(&mut self, _n: usize) -> Result<Option<DataChunk>, OperatorError> {
        Ok(None)
    }
    fn reset(&mut self) {}
    fn name(&self) -> &'static str {
        "GatedSource"
    }
}
impl ParallelSource for GatedSource {
    fn total_rows(&self) -> Option<usize> {
        self.inner.total_rows()
    }
    fn create_partition(&self, morsel: &Morsel) -> Box<dyn Source> {
        self.ctl.park(Ph::Holding(morsel.id));
        self.inner.create_partition(morsel)
    }
    fn generate_morsels(&self, _size: usize, source_id: usize) -> Vec<Morsel> {
        par::generate_morsels(self.total_rows().unwrap_or(0), self.morsel, source_id)
    }
    fn num_columns(&self) -> usize {
        self.inner.num_columns()
    }
}

struct GateWrap {
    inner: Box<dyn PushOperator>,
    ctl: Arc<Ctl>,
}
impl PushOperator for GateWrap {
    fn push(&mut self, chunk: DataChunk, sink: &mut dyn Sink) -> Result<bool, OperatorError> {
        self.inner.push(chunk, sink)
    }
    fn finalize(&mut self, sink: &mut dyn Sink) -> Result<(), OperatorError> {
        self.ctl.park(Ph::AtFinalize);
        self.inner.finalize(sink)
    }
    fn preferred_chunk_size(&self) -> ChunkSizeHint {
        self.inner.preferred_chunk_size()
    }
    fn name(&self) -> &'static str {
        self.inner.name()
    }
}
impl Drop for GateWrap {
    fn drop(&mut self) {
        self.ctl.done();
    }
}

struct GatedFactory {
    chain: Vec<Op>,
    ctl: Arc<Ctl>,
}
impl OperatorChainFactory for GatedFactory {
    fn create_chain(&self) -> Vec<Box<dyn PushOperator>> {
        self.ctl.park(Ph::AtStart);
        let mut ops: Vec<Box<dyn PushOperator>> = self.chain.iter().map(|o| strat::build_push_op(o, &PushVariant::Plain, None)).collect();
        let first = ops.remove(0);
        ops.insert(0, Box::new(GateWrap { inner: first, ctl: Arc::clone(&self.ctl) }));
        ops
    }
    fn has_pipeline_breakers(&self) -> bool {
        true
    }
    fn chain_length(&self) -> usize {
        self.chain.len()
    }
}

// ---------------------------------------------------------------------------
// model of the worker protocol (what each release must lead to)
// ---------------------------------------------------------------------------

#[derive(Clone)]
pub struct Model {
    pub phase: Vec<Ph>,
    pub next: usize,
    pub morsels: usize,
}
impl Model {
    pub fn new(w: usize, m: usize) -> Self {
        Model { phase: vec![Ph::AtStart; w], next: 0, morsels: m }
    }
    pub fn step(&mut self, w: usize) -> Ph {
        self.phase[w] = match self.phase[w] {
            Ph::AtStart | Ph::Holding(_) => {
                if self.next < self.morsels {
                    self.next += 1;
                    Ph::Holding(self.next - 1)
                } else {
                    Ph::AtFinalize
                }
            }
            Ph::AtFinalize => Ph::Done,
            p => p,
        };
        self.phase[w]
    }
    pub fn enabled(&self) -> Vec<usize> {
        (0..self.phase.len()).filter(|w| self.phase[*w] != Ph::Done).collect()
    }
}

/// Canonical release sequence realising an assignment (worker per morsel) and a completion order.
pub fn canonical(assign: &[usize], order: &[usize], w: usize) -> Vec<usize> {
    let mut s: Vec<usize> = assign.to_vec();
    let mut m = Model::new(w, assign.len());
    for a in assign {
        m.step(*a);
    }
    for x in 0..w {
        if m.phase[x] != Ph::AtFinalize {
            s.push(x);
            m.step(x);
        }
    }
    s.extend_from_slice(order);
    s
}
pub fn permutations(n: usize) -> Vec<Vec<usize>> {
    fn rec(cur: &mut Vec<usize>, used: &mut Vec<bool>, out: &mut Vec<Vec<usize>>) {
        if cur.len() == used.len() {
            out.push(cur.clone());
            return;
        }
        for i in 0..used.len() {
            if !used[i] {
                used[i] = true;
                cur.push(i);
                rec(cur, used, out);
                cur.pop();
                used[i] = false;
            }
        }
    }
    let mut out = vec![];
    rec(&mut vec![], &mut vec![false; n], &mut out);
    out
}
/// Every maximal release sequence (all interleavings of the gate protocol).
pub fn all_interleavings(w: usize, m: usize) -> Vec<Vec<usize>> {
    fn rec(model: &Model, cur: &mut Vec<usize>, out: &mut Vec<Vec<usize>>) {
        let en = model.enabled();
        if en.is_empty() {
            out.push(cur.clone());
            return;
        }
        for x in en {
            let mut m2 = model.clone();
            m2.step(x);
            cur.push(x);
            rec(&m2, cur, out);
            cur.pop();
        }
    }
    let mut out = vec![];
    rec(&Model::new(w, m), &mut vec![], &mut out);
    out
}

// ---------------------------------------------------------------------------

#[derive(Clone, Debug)]
pub struct SCase {
    pub profile: String,
    pub n: usize,
    pub chain: String,
    pub morsel: usize,
    pub workers: usize,
    pub schedule: Vec<usize>,
    pub mode: String,
}
impl SCase {
    pub fn json(&self) -> serde_json::Value {
        json!({"part":"B-sched","profile":self.profile,"n":self.n,"chain":self.chain,"morsel":self.morsel,"workers":self.workers,"schedule":self.schedule,"mode":self.mode})
    }
    pub fn from_json(v: &serde_json::Value) -> Option<SCase> {
        Some(SCase {
            profile: v["profile"].as_str()?.into(),
            n: v["n"].as_u64()? as usize,
            chain: v["chain"].as_str()?.into(),
            morsel: v["morsel"].as_u64()? as usize,
            workers: v["workers"].as_u64()? as usize,
            schedule: v["schedule"].as_array()?.iter().map(|x| x.as_u64().map(|x| x as usize)).collect::<Option<Vec<_>>>()?,
            mode: v["mode"].as_str().unwrap_or("canonical").into(),
        })
    }
}

pub struct SOut {
    pub founds: Vec<Found>,
    /// merged rows (when the run produced any), for agreement across schedules
    pub merged: Option<Rows>,
    pub assignment: Vec<(usize, usize)>,
}

pub fn run_schedule(c: &SCase) -> SOut {
    let chain = model::parse_chain(&c.chain).unwrap_or_else(|| vcore::machinery_failure("bad chain in schedule case"));
    let kind: MergeKind = strat::merge_kind(&chain).unwrap_or_else(|| vcore::machinery_failure("chain not parallelisable"));
    let input = tables::table(&c.profile, c.n);
    let nm = c.n.div_ceil(c.morsel.max(1));
    let ctl = Arc::new(Ctl::new());
    let source: Arc<dyn ParallelSource> = Arc::new(GatedSource { inner: strat::par_source(&input, tables::WIDTH, strat::Layout::Auto), morsel: c.morsel, ctl: Arc::clone(&ctl) });
    let factory: Arc<dyn OperatorChainFactory> = Arc::new(GatedFactory { chain: chain.clone(), ctl: Arc::clone(&ctl) });
    let pipeline = ParallelPipeline::new(source, factory, strat::par_config(c.workers, strat::MorselCfg::Forced(c.morsel), 2048));
    let boundary = format!("W{}xM{}", c.workers, nm);
    let sig = |kind: &str| vec![("layer", "B-sched".to_string()), ("strategy", "parallel-gated".into()), ("chain", model::chain_sig(&chain)), ("kind", kind.into()), ("profile", c.profile.clone())];
    let mut founds = vec![];
    let mut divergence: Option<String> = None;
    let result = std::thread::scope(|s| {
        let h = s.spawn(|| vcore::catch(|| pipeline.execute()));
        if nm > 0 {
            ctl.wait_parked(c.workers);
            let mut m = Model::new(c.workers, nm);
            for (i, &w) in c.schedule.iter().enumerate() {
                if w >= c.workers || m.phase[w] == Ph::Done {
                    vcore::machinery_failure("schedule releases a finished worker");
                }
                let want = m.step(w);
                let got = ctl.release(w);
                if got != want {
                    divergence = Some(format!("step {i}: released worker {w}, the protocol model says {want:?}, the real worker went to {got:?}"));
                    break;
                }
            }
        }
        ctl.open();
        h.join().unwrap_or_else(|_| Err("executor thread panicked outside catch".into()))
    });
    let assignment = ctl.log();
    if let Some(d) = divergence {
        founds.push(found(&sig("schedule-divergence"), &boundary, c.n, c.workers, c.json(), d));
        return SOut { founds, merged: None, assignment };
    }
    let mut merged = None;
    match result {
        Err(p) => founds.push(found(&sig("panic"), &boundary, c.n, c.workers, c.json(), format!("panic: {p}"))),
        Ok(Err(e)) => founds.push(found(&sig("error"), &boundary, c.n, c.workers, c.json(), format!("{e}"))),
        Ok(Ok(res)) => {
            if res.rows_processed != c.n || res.morsels_processed != nm {
                founds.push(found(&sig("wrong-rows"), &boundary, c.n, c.workers, c.json(), format!("rows_processed {} (want {}), morsels_processed {} (want {nm})", res.rows_processed, c.n, res.morsels_processed)));
            }
            let ids: Vec<usize> = assignment.iter().map(|x| x.1).collect();
            if nm > 0 && ids != (0..nm).collect::<Vec<_>>() {
                founds.push(found(&sig("schedule-divergence"), &boundary, c.n, c.workers, c.json(), format!("morsels handed out in order {ids:?}")));
            }
            match vcore::catch(|| strat::merge_phase(&kind, res.chunks)) {
                Err(p) => founds.push(found(&sig("panic"), &boundary, c.n, c.workers, c.json(), format!("merge phase panic: {p}"))),
                Ok(Err(e)) => founds.push(found(&sig("error"), &boundary, c.n, c.workers, c.json(), format!("merge phase: {e}"))),
                Ok(Ok(rows)) => {
                    if let Some((k, d)) = model::check(&chain, &input, &rows, &mut model::Cache::default()) {
                        founds.push(found(&sig(k), &boundary, c.n, c.workers, c.json(), format!("assignment {assignment:?}: {d}")));
                    }
                    merged = Some(rows);
                }
            }
        }
    }
    SOut { founds, merged, assignment }
}
