//! Direct enumeration of `ExternalSort` and `PartitionedState` under memory budgets
//! from "spill every run / every operation" to "never spill".
use crate::model::{self, Rows, SK, canon, canon_row};
use crate::strat::{fresh_dir, leftovers};
use crate::tables;
use crate::{Found, found};
use grafeo_common::types::Value;
use grafeo_core::execution::spill::{self, ExternalSort, PartitionedState, SpillManager};
use serde_json::json;
use std::collections::BTreeMap;
use std::io::{Read, Write};
use std::path::Path;
use std::sync::Arc;

fn spill_keys(k: &[SK]) -> Vec<spill::SortKey> {
    k.iter()
        .map(|k| spill::SortKey {
            column: k.col,
            direction: if k.asc { spill::SortDirection::Ascending } else { spill::SortDirection::Descending },
            null_order: if k.nulls_first { spill::NullOrder::First } else { spill::NullOrder::Last },
        })
        .collect()
}

#[derive(Clone, Debug)]
pub struct ExtCase {
    pub profile: String,
    pub n: usize,
    pub keys: String, // sort1 | sort2
    /// rows per spilled run; 0 = never spill (everything in the in-memory buffer)
    pub run_len: usize,
    /// the last run stays in memory (unsorted) instead of being spilled
    pub mem_last: bool,
}
impl ExtCase {
    pub fn json(&self) -> serde_json::Value {
        json!({"part":"A-spill","engine":"external-sort","profile":self.profile,"n":self.n,"keys":self.keys,"run_len":self.run_len,"mem_last":self.mem_last})
    }
    pub fn from_json(v: &serde_json::Value) -> Option<ExtCase> {
        Some(ExtCase {
            profile: v["profile"].as_str()?.into(),
            n: v["n"].as_u64()? as usize,
            keys: v["keys"].as_str()?.into(),
            run_len: v["run_len"].as_u64()? as usize,
            mem_last: v["mem_last"].as_bool()?,
        })
    }
    pub fn budget_tag(&self) -> String {
        match self.run_len {
            0 => "budget-unlimited".into(),
            1 => "budget-min".into(),
            b if b >= self.n => "budget-one-run".into(),
            _ => "budget-mid".into(),
        }
    }
}

pub fn ext_cases(thorough: bool) -> Vec<ExtCase> {
    let mut v = vec![];
    let sizes: Vec<usize> = if thorough { vec![0, 1, 2, 3, 8, 33, 200, 2047, 2048, 2049] } else { vec![0, 1, 2, 3, 8, 33] };
    for profile in if thorough { vec!["plain", "unique", "floatkey", "strkey", "nullbool", "exotic"] } else { vec!["plain", "unique", "exotic"] } {
        for &n in &sizes {
            for keys in ["sort1", "sort2"] {
                let mut lens = vec![0usize, 1, 2, 3, 7, n / 2 + 1, n.max(1)];
                lens.sort();
                lens.dedup();
                for run_len in lens {
                    if run_len > 0 && n.div_ceil(run_len) > 200 {
                        continue; // bound: at most 200 run files per sort
                    }
                    for mem_last in [false, true] {
                        if run_len == 0 && mem_last {
                            continue;
                        }
                        v.push(ExtCase { profile: profile.into(), n, keys: keys.into(), run_len, mem_last });
                    }
                }
            }
        }
    }
    v
}

pub fn run_ext(c: &ExtCase, scratch: &Path) -> Vec<Found> {
    let keys = if c.keys == "sort1" { model::sort1() } else { model::sort2() };
    let input = tables::table(&c.profile, c.n);
    let dir = fresh_dir(scratch);
    let mut out = vec![];
    let sig = |kind: &str| vec![("layer", "A-spill".to_string()), ("strategy", "external-sort".into()), ("chain", c.keys.clone()), ("kind", kind.into()), ("profile", c.profile.clone())];
    let boundary = format!("{}/{}", tables::size_tag(c.n), c.budget_tag());
    let res = vcore::catch(|| -> Result<(Rows, usize, usize, Option<String>), String> {
        let mgr = Arc::new(SpillManager::new(&dir).map_err(|e| format!("manager: {e}"))?);
        let mut ext = ExternalSort::new(Arc::clone(&mgr), tables::WIDTH, spill_keys(&keys));
        let mut mem: Rows = vec![];
        let mut spilled_rows = 0usize;
        let mut spilled_runs = 0usize;
        if c.run_len == 0 {
            mem = input.clone();
        } else {
            let runs: Vec<&[model::Row]> = input.chunks(c.run_len).collect();
            for (i, r) in runs.iter().enumerate() {
                if c.mem_last && i + 1 == runs.len() {
                    mem = r.to_vec();
                } else {
                    let mut run = r.to_vec();
                    run.sort_by(|a, b| model::cmp_rows(a, b, &keys)); // documented precondition: runs are sorted
                    spilled_rows += run.len();
                    spilled_runs += 1;
                    ext.spill_sorted_run(run).map_err(|e| format!("spill_sorted_run: {e}"))?;
                }
            }
        }
        if ext.num_runs() != spilled_runs || ext.total_rows() != spilled_rows {
            return Err(format!("num_runs/total_rows = {}/{} after spilling {spilled_runs} runs / {spilled_rows} rows", ext.num_runs(), ext.total_rows()));
        }
        let merged = ext.merge_all(mem).map_err(|e| format!("merge_all: {e}"))?;
        drop(ext);
        let mut left = leftovers(&dir).map(|l| format!("after ExternalSort was dropped: {l}"));
        drop(mgr);
        if let Some(l) = leftovers(&dir) {
            left = Some(format!("after the SpillManager was dropped: {l}"));
        }
        Ok((merged, spilled_runs, spilled_rows, left))
    });
    match res {
        Err(p) => out.push(found(&sig("panic"), &boundary, c.n, 0, c.json(), format!("panic: {p}"))),
        Ok(Err(e)) => out.push(found(&sig("error"), &boundary, c.n, 0, c.json(), e)),
        Ok(Ok((merged, _, _, left))) => {
            let chain = [model::Op::Sort(keys.clone())];
            if let Some((kind, d)) = model::check(&chain, &input, &merged, &mut model::Cache::default()) {
                out.push(found(&sig(kind), &boundary, c.n, 0, c.json(), d));
            }
            if let Some(l) = left {
                out.push(found(&sig("spill-file-left"), &boundary, c.n, 0, c.json(), l));
            }
        }
    }
    let _ = std::fs::remove_dir_all(&dir);
    out
}

// ---------------------------------------------------------------------------

#[derive(Clone, Debug)]
pub struct PartCase {
    pub profile: String,
    pub n: usize,
    pub partitions: usize,
    /// never | largest | lru | own | largest3 (every third operation)
    pub policy: String,
    /// key = [k] or [k, s]
    pub two_col_key: bool,
}
impl PartCase {
    pub fn json(&self) -> serde_json::Value {
        json!({"part":"A-spill","engine":"partitioned-state","profile":self.profile,"n":self.n,"partitions":self.partitions,"policy":self.policy,"two_col_key":self.two_col_key})
    }
    pub fn from_json(v: &serde_json::Value) -> Option<PartCase> {
        Some(PartCase {
            profile: v["profile"].as_str()?.into(),
            n: v["n"].as_u64()? as usize,
            partitions: v["partitions"].as_u64()? as usize,
            policy: v["policy"].as_str()?.into(),
            two_col_key: v["two_col_key"].as_bool()?,
        })
    }
}
pub fn part_cases(thorough: bool) -> Vec<PartCase> {
    let mut v = vec![];
    let sizes: Vec<usize> = if thorough { vec![0, 1, 2, 3, 12, 40, 300, 2049] } else { vec![0, 1, 2, 12, 30] };
    for profile in if thorough { tables::PROFILES.to_vec() } else { vec!["plain", "nullbool", "exotic"] } {
        for &n in &sizes {
            for partitions in [1usize, 2, 256] {
                for policy in ["never", "largest", "lru", "own", "largest3"] {
                    for two in [false, true] {
                        v.push(PartCase { profile: profile.into(), n, partitions, policy: policy.into(), two_col_key: two });
                    }
                }
            }
        }
    }
    v
}

type Acc = (i64, i64);
fn ser(v: &Acc, w: &mut dyn Write) -> std::io::Result<()> {
    w.write_all(&v.0.to_le_bytes())?;
    w.write_all(&v.1.to_le_bytes())
}
fn de(r: &mut dyn Read) -> std::io::Result<Acc> {
    let mut b = [0u8; 8];
    r.read_exact(&mut b)?;
    let a = i64::from_le_bytes(b);
    r.read_exact(&mut b)?;
    Ok((a, i64::from_le_bytes(b)))
}

pub fn run_part(c: &PartCase, scratch: &Path) -> Vec<Found> {
    let input = tables::table(&c.profile, c.n);
    let dir = fresh_dir(scratch);
    let mut out = vec![];
    let sig = |kind: &str| vec![("layer", "A-spill".to_string()), ("strategy", "partitioned-state".into()), ("chain", "group-accumulate".into()), ("kind", kind.into()), ("profile", c.profile.clone())];
    let boundary = format!("{}/{}/p{}", tables::size_tag(c.n), if c.policy == "never" { "budget-unlimited" } else if c.policy == "largest3" { "budget-mid" } else { "budget-min" }, c.partitions);
    let key_of = |r: &model::Row| -> Vec<Value> { if c.two_col_key { vec![r[0].clone(), r[2].clone()] } else { vec![r[0].clone()] } };
    let weight = |r: &model::Row| -> i64 {
        match &r[3] {
            Value::Int64(i) => *i,
            _ => 100,
        }
    };
    // reference
    let mut refm: BTreeMap<String, Acc> = BTreeMap::new();
    for r in &input {
        let e = refm.entry(canon_row(&key_of(r))).or_insert((0, 0));
        e.0 += 1;
        e.1 += weight(r);
    }
    let res = vcore::catch(|| -> Result<(BTreeMap<String, Acc>, BTreeMap<String, Acc>, usize, usize, Option<String>), String> {
        let mgr = Arc::new(SpillManager::new(&dir).map_err(|e| format!("manager: {e}"))?);
        let mut st: PartitionedState<Acc> = PartitionedState::new(Arc::clone(&mgr), c.partitions, ser, de);
        let io = |e: std::io::Error| format!("io: {e}");
        for (i, r) in input.iter().enumerate() {
            let key = key_of(r);
            if i % 5 == 4 {
                // read-modify-write through get + insert
                let cur = st.get(&key).map_err(io)?.copied().unwrap_or((0, 0));
                st.insert(key.clone(), (cur.0 + 1, cur.1 + weight(r))).map_err(io)?;
            } else {
                let e = st.get_or_insert_with(key.clone(), || (0, 0)).map_err(io)?;
                e.0 += 1;
                e.1 += weight(r);
            }
            match c.policy.as_str() {
                "largest" => {
                    st.spill_largest().map_err(io)?;
                }
                "lru" => {
                    st.spill_lru().map_err(io)?;
                }
                "own" => {
                    let p = st.partition_for(&key);
                    st.spill_partition(p).map_err(io)?;
                }
                "largest3" if i % 3 == 2 => {
                    st.spill_largest().map_err(io)?;
                }
                _ => {}
            }
        }
        let total = st.total_size();
        let collect = |v: Vec<(Vec<Value>, Acc)>| -> Result<BTreeMap<String, Acc>, String> {
            let mut m = BTreeMap::new();
            for (k, a) in v {
                if m.insert(canon_row(&k), a).is_some() {
                    return Err(format!("key {} returned twice", canon_row(&k)));
                }
            }
            Ok(m)
        };
        let it = collect(st.iter_all().map_err(io)?)?;
        let dr = collect(st.drain_all().map_err(io)?)?;
        let after = st.total_size();
        let mut left = leftovers(&dir).map(|l| format!("after drain_all: {l}"));
        drop(st);
        drop(mgr);
        if let Some(l) = leftovers(&dir) {
            left = Some(format!("after state and manager were dropped: {l}"));
        }
        Ok((it, dr, total, after, left))
    });
    let rank = c.partitions;
    match res {
        Err(p) => out.push(found(&sig("panic"), &boundary, c.n, rank, c.json(), format!("panic: {p}"))),
        Ok(Err(e)) => out.push(found(&sig("error"), &boundary, c.n, rank, c.json(), e)),
        Ok(Ok((it, dr, total, after, left))) => {
            for (name, m) in [("iter_all", &it), ("drain_all", &dr)] {
                if *m != refm {
                    let missing: Vec<&String> = refm.keys().filter(|k| !m.contains_key(*k)).collect();
                    let extra: Vec<&String> = m.keys().filter(|k| !refm.contains_key(*k)).collect();
                    let wrong: Vec<String> = refm.iter().filter(|(k, v)| m.get(*k).is_some_and(|x| x != *v)).map(|(k, v)| format!("{k}: want {v:?} got {:?}", m[k])).collect();
                    let kind = if !missing.is_empty() && extra.is_empty() && wrong.is_empty() {
                        "missing-rows"
                    } else if missing.is_empty() && !extra.is_empty() && wrong.is_empty() {
                        "extra-rows"
                    } else {
                        "wrong-aggregate"
                    };
                    out.push(found(&sig(kind), &boundary, c.n, rank, c.json(), format!("{name}: missing {missing:?} extra {extra:?} wrong {wrong:?}")));
                }
            }
            if total != refm.len() || after != 0 {
                out.push(found(&sig("wrong-aggregate"), &boundary, c.n, rank, c.json(), format!("total_size {total} (want {}) / after drain {after}", refm.len())));
            }
            if let Some(l) = left {
                out.push(found(&sig("spill-file-left"), &boundary, c.n, rank, c.json(), l));
            }
        }
    }
    let _ = canon(&Value::Null);
    let _ = std::fs::remove_dir_all(&dir);
    out
}
