//! Execution strategies on the real code: pull-based operator trees, the push-based
//! `Pipeline`, spilling push operators, and `ParallelPipeline` + merge phase.
use crate::model::{AGG_COL, GROUP_COL, Op, Row, Rows, SK};
use grafeo_common::memory::buffer::PressureLevel;
use grafeo_common::types::{LogicalType, Value};
use grafeo_core::execution::operators as pull;
use grafeo_core::execution::operators::push;
use grafeo_core::execution::operators::{Operator, OperatorError, OperatorResult};
use grafeo_core::execution::parallel::{
    self as par, CloneableOperatorFactory, Morsel, OperatorChainFactory, ParallelChunkSource, ParallelPipeline, ParallelPipelineConfig, ParallelSource, ParallelVectorSource,
};
use grafeo_core::execution::pipeline::{Pipeline, PushOperator, Sink, Source};
use grafeo_core::execution::spill::SpillManager;
use grafeo_core::execution::{CardinalityTrackingOperator, ChunkSource, DataChunk, SharedAdaptiveContext, ValueVector, VectorSource, execute_adaptive};
use grafeo_core::graph::lpg::LpgStore;
use std::collections::HashMap;
use std::path::{Path, PathBuf};
use std::sync::atomic::{AtomicU64, Ordering as AO};
use std::sync::{Arc, Mutex};

// ---------------------------------------------------------------------------
// rows <-> chunks
// ---------------------------------------------------------------------------

pub fn rows_to_cols(rows: &[Row], width: usize) -> Vec<Vec<Value>> {
    (0..width).map(|c| rows.iter().map(|r| r[c].clone()).collect()).collect()
}
pub fn rows_to_chunk(rows: &[Row], width: usize) -> DataChunk {
    DataChunk::new(rows_to_cols(rows, width).iter().map(|c| ValueVector::from_values(c)).collect())
}
pub fn chunk_rows(c: &DataChunk) -> Rows {
    let w = c.column_count();
    c.selected_indices().map(|i| (0..w).map(|j| c.column(j).and_then(|col| col.get_value(i)).unwrap_or(Value::Null)).collect()).collect()
}
pub fn chunks_rows(cs: &[DataChunk]) -> Rows {
    cs.iter().flat_map(chunk_rows).collect()
}

#[derive(Clone, Copy, Debug, PartialEq)]
pub enum Layout {
    /// the source honours the chunk size requested by the executor
    Auto,
    /// pre-built chunks of exactly this many rows
    Chunks(usize),
    /// chunks of 3 rows with an empty chunk after the first one and at the end
    Chunks3e,
}
impl Layout {
    pub fn tag(&self) -> String {
        match self {
            Layout::Auto => "auto".into(),
            Layout::Chunks(c) => format!("c{c}"),
            Layout::Chunks3e => "c3e".into(),
        }
    }
    pub fn parse(s: &str) -> Option<Layout> {
        Some(match s {
            "auto" => Layout::Auto,
            "c3e" => Layout::Chunks3e,
            _ => Layout::Chunks(s.strip_prefix('c')?.parse().ok()?),
        })
    }
    pub fn chunks(&self, rows: &Rows, width: usize) -> Vec<DataChunk> {
        match self {
            Layout::Auto => rows.chunks(2048).map(|c| rows_to_chunk(c, width)).collect(),
            Layout::Chunks(c) => rows.chunks(*c).map(|c| rows_to_chunk(c, width)).collect(),
            Layout::Chunks3e => {
                let mut v: Vec<DataChunk> = vec![];
                for (i, c) in rows.chunks(3).enumerate() {
                    v.push(rows_to_chunk(c, width));
                    if i == 0 {
                        v.push(rows_to_chunk(&[], width));
                    }
                }
                v.push(rows_to_chunk(&[], width));
                v
            }
        }
    }
}

// ---------------------------------------------------------------------------
// pull
// ---------------------------------------------------------------------------

struct TableOp {
    chunks: Vec<DataChunk>,
    pos: usize,
}
impl Operator for TableOp {
    fn next(&mut self) -> OperatorResult {
        if self.pos >= self.chunks.len() {
            return Ok(None);
        }
        self.pos += 1;
        Ok(Some(self.chunks[self.pos - 1].clone()))
    }
    fn reset(&mut self) {
        self.pos = 0;
    }
    fn name(&self) -> &'static str {
        "TableOp"
    }
}

fn any(w: usize) -> Vec<LogicalType> {
    vec![LogicalType::Any; w]
}
fn pull_keys(k: &[SK]) -> Vec<pull::SortKey> {
    k.iter()
        .map(|k| pull::SortKey {
            column: k.col,
            direction: if k.asc { pull::SortDirection::Ascending } else { pull::SortDirection::Descending },
            null_order: if k.nulls_first { pull::NullOrder::NullsFirst } else { pull::NullOrder::NullsLast },
        })
        .collect()
}
fn pull_aggs() -> Vec<pull::AggregateExpr> {
    use pull::AggregateExpr as A;
    vec![A::count_star(), A::count(AGG_COL), A::sum(AGG_COL), A::min(AGG_COL), A::max(AGG_COL), A::avg(AGG_COL)]
}

pub fn build_pull(chain: &[Op], src: Box<dyn Operator>, width: usize, store: &Arc<LpgStore>, hash_global: bool) -> Box<dyn Operator> {
    use pull::{BinaryFilterOp, ExpressionPredicate, FilterExpression as FE, ProjectExpr};
    let mut cur = src;
    let mut w = width;
    for op in chain {
        cur = match op {
            Op::Filter { col, gt } => {
                let expr = FE::Binary { left: Box::new(FE::Variable("c".into())), op: BinaryFilterOp::Gt, right: Box::new(FE::Literal(Value::Int64(*gt))) };
                let vars: HashMap<String, usize> = [("c".to_string(), *col)].into_iter().collect();
                Box::new(pull::FilterOperator::new(cur, Box::new(ExpressionPredicate::new(expr, vars, Arc::clone(store)))))
            }
            Op::Project => {
                let expr = FE::Binary { left: Box::new(FE::Variable("c".into())), op: BinaryFilterOp::Add, right: Box::new(FE::Literal(Value::Int64(1))) };
                let vars: HashMap<String, usize> = [("c".to_string(), 3usize)].into_iter().collect();
                Box::new(pull::ProjectOperator::with_store(
                    cur,
                    vec![ProjectExpr::Column(0), ProjectExpr::Column(1), ProjectExpr::Column(2), ProjectExpr::Expression { expr, variable_columns: vars }],
                    any(4),
                    Arc::clone(store),
                ))
            }
            Op::Limit(k) => Box::new(pull::LimitOperator::new(cur, *k, any(w))),
            Op::Distinct => Box::new(pull::DistinctOperator::new(cur, any(w))),
            Op::DistinctOn(c) => Box::new(pull::DistinctOperator::on_columns(cur, vec![*c], any(w))),
            Op::Sort(keys) => Box::new(pull::SortOperator::new(cur, pull_keys(keys), any(w))),
            Op::AggGlobal => {
                w = 6;
                if hash_global {
                    Box::new(pull::HashAggregateOperator::new(cur, vec![], pull_aggs(), any(6)))
                } else {
                    Box::new(pull::SimpleAggregateOperator::new(cur, pull_aggs(), any(6)))
                }
            }
            Op::AggGroup => {
                w = 7;
                Box::new(pull::HashAggregateOperator::new(cur, vec![GROUP_COL], pull_aggs(), any(7)))
            }
        };
    }
    cur
}

/// variant: "simple" | "hashagg" | "adaptive"
pub fn run_pull(rows: &Rows, width: usize, chain: &[Op], layout: Layout, variant: &str) -> Result<Rows, String> {
    let store = Arc::new(LpgStore::new());
    let src = Box::new(TableOp { chunks: layout.chunks(rows, width), pos: 0 });
    let mut root = build_pull(chain, src, width, &store, variant == "hashagg");
    if variant == "adaptive" {
        let (chunks, _) = execute_adaptive(root, None, None).map_err(|e| format!("{e}"))?;
        return Ok(chunks_rows(&chunks));
    }
    let mut out = vec![];
    let mut guard = 0usize;
    while let Some(c) = root.next().map_err(|e| format!("{e}"))? {
        out.extend(chunk_rows(&c));
        guard += 1;
        if guard > 1_000_000 {
            return Err("pull tree does not terminate (1e6 chunks)".into());
        }
    }
    Ok(out)
}

// ---------------------------------------------------------------------------
// push
// ---------------------------------------------------------------------------

pub fn push_keys(k: &[SK]) -> Vec<push::SortKey> {
    k.iter()
        .map(|k| push::SortKey {
            column: k.col,
            direction: if k.asc { push::SortDirection::Ascending } else { push::SortDirection::Descending },
            null_order: if k.nulls_first { push::NullOrder::First } else { push::NullOrder::Last },
        })
        .collect()
}
fn push_aggs() -> Vec<push::AggregateExpr> {
    use push::AggregateExpr as A;
    vec![A::count_star(), A::count(AGG_COL), A::sum(AGG_COL), A::min(AGG_COL), A::max(AGG_COL), A::avg(AGG_COL)]
}

#[derive(Clone)]
pub enum PushVariant {
    Plain,
    Tracked,
    MatDistinct,
    /// spillable sort/aggregate operators without a manager
    SpillNoMgr,
    /// spillable operators with a manager and this threshold
    Spill(usize),
}
impl PushVariant {
    pub fn parse(s: &str) -> Option<PushVariant> {
        Some(match s {
            "plain" => PushVariant::Plain,
            "tracked" => PushVariant::Tracked,
            "matdistinct" => PushVariant::MatDistinct,
            "spillnomgr" => PushVariant::SpillNoMgr,
            _ => PushVariant::Spill(s.strip_prefix("spill")?.parse().ok()?),
        })
    }
}

pub fn build_push_op(op: &Op, variant: &PushVariant, mgr: Option<&Arc<SpillManager>>) -> Box<dyn PushOperator> {
    match op {
        Op::Filter { col, gt } => Box::new(push::FilterPushOperator::column_compare(*col, push::CompareOp::Gt, Value::Int64(*gt))),
        Op::Project => Box::new(push::ProjectPushOperator::new(vec![
            Box::new(push::ColumnExpr::new(0)),
            Box::new(push::ColumnExpr::new(1)),
            Box::new(push::ColumnExpr::new(2)),
            Box::new(push::BinaryExpr::new(Box::new(push::ColumnExpr::new(3)), Box::new(push::ConstantExpr::new(Value::Int64(1))), push::ArithOp::Add)),
        ])),
        Op::Limit(k) => Box::new(push::LimitPushOperator::new(*k)),
        Op::Distinct => match variant {
            PushVariant::MatDistinct => Box::new(push::DistinctMaterializingOperator::new()),
            _ => Box::new(push::DistinctPushOperator::new()),
        },
        Op::DistinctOn(c) => match variant {
            PushVariant::MatDistinct => Box::new(push::DistinctMaterializingOperator::on_columns(vec![*c])),
            _ => Box::new(push::DistinctPushOperator::on_columns(vec![*c])),
        },
        Op::Sort(keys) => match (variant, mgr) {
            (PushVariant::Spill(t), Some(m)) => Box::new(push::SpillableSortPushOperator::with_spilling(push_keys(keys), Arc::clone(m), *t)),
            (PushVariant::SpillNoMgr, _) => Box::new(push::SpillableSortPushOperator::new(push_keys(keys)).with_threshold(1)),
            _ => Box::new(push::SortPushOperator::new(push_keys(keys))),
        },
        Op::AggGlobal | Op::AggGroup => {
            let gb = if matches!(op, Op::AggGroup) { vec![GROUP_COL] } else { vec![] };
            match (variant, mgr) {
                (PushVariant::Spill(t), Some(m)) => Box::new(push::SpillableAggregatePushOperator::with_spilling(gb, push_aggs(), Arc::clone(m), *t)),
                (PushVariant::SpillNoMgr, _) => Box::new(push::SpillableAggregatePushOperator::new(gb, push_aggs()).with_threshold(1)),
                _ => Box::new(push::AggregatePushOperator::new(gb, push_aggs())),
            }
        }
    }
}
pub fn build_push(chain: &[Op], variant: &PushVariant, mgr: Option<&Arc<SpillManager>>) -> Vec<Box<dyn PushOperator>> {
    let ctx = SharedAdaptiveContext::new();
    chain
        .iter()
        .enumerate()
        .map(|(i, op)| {
            let o = build_push_op(op, variant, mgr);
            if matches!(variant, PushVariant::Tracked) { Box::new(CardinalityTrackingOperator::new(o, &format!("op{i}"), ctx.clone())) as Box<dyn PushOperator> } else { o }
        })
        .collect()
}

struct SharedSink {
    out: Arc<Mutex<Vec<DataChunk>>>,
}
impl Sink for SharedSink {
    fn consume(&mut self, chunk: DataChunk) -> Result<bool, OperatorError> {
        self.out.lock().unwrap().push(chunk);
        Ok(true)
    }
    fn finalize(&mut self) -> Result<(), OperatorError> {
        Ok(())
    }
    fn name(&self) -> &'static str {
        "SharedSink"
    }
}

static DIR_SEQ: AtomicU64 = AtomicU64::new(0);
pub fn fresh_dir(root: &Path) -> PathBuf {
    let p = root.join(format!("d{}", DIR_SEQ.fetch_add(1, AO::Relaxed)));
    std::fs::create_dir_all(&p).unwrap_or_else(|e| vcore::machinery_failure(&format!("scratch subdir: {e}")));
    p
}
/// Names of the files left in a directory (None when empty).
pub fn leftovers(dir: &Path) -> Option<String> {
    let names: Vec<String> = std::fs::read_dir(dir).map(|it| it.filter_map(|e| e.ok()).map(|e| e.file_name().to_string_lossy().to_string()).collect()).unwrap_or_default();
    if names.is_empty() { None } else { Some(format!("{} file(s): {}", names.len(), names.iter().take(3).cloned().collect::<Vec<_>>().join(","))) }
}

pub struct RunOut {
    pub rows: Result<Rows, String>,
    /// spill files still present after the operators are gone (manager alive) / after the manager is gone
    pub left: Option<String>,
}

pub fn run_push(rows: &Rows, width: usize, chain: &[Op], layout: Layout, variant: &PushVariant, scratch: &Path) -> RunOut {
    let (dir, mgr) = if matches!(variant, PushVariant::Spill(_)) {
        let d = fresh_dir(scratch);
        let m = Arc::new(SpillManager::new(&d).unwrap_or_else(|e| vcore::machinery_failure(&format!("spill manager: {e}"))));
        (Some(d), Some(m))
    } else {
        (None, None)
    };
    let out = Arc::new(Mutex::new(vec![]));
    let source: Box<dyn Source> = match layout {
        Layout::Auto => Box::new(VectorSource::new(rows_to_cols(rows, width))),
        l => Box::new(ChunkSource::new(l.chunks(rows, width))),
    };
    let ops = build_push(chain, variant, mgr.as_ref());
    let mut p = Pipeline::new(source, ops, Box::new(SharedSink { out: Arc::clone(&out) }));
    let r = p.execute().map_err(|e| format!("{e}"));
    drop(p);
    let rows_out = r.map(|_| chunks_rows(&out.lock().unwrap()));
    let mut left = None;
    if let Some(d) = &dir {
        if let Some(l) = leftovers(d) {
            left = Some(format!("after the operators were dropped: {l}"));
        }
        drop(mgr);
        if let Some(l) = leftovers(d) {
            left = Some(format!("after the SpillManager was dropped: {l}"));
        }
        let _ = std::fs::remove_dir_all(d);
    }
    RunOut { rows: rows_out, left }
}

// ---------------------------------------------------------------------------
// parallel
// ---------------------------------------------------------------------------

#[derive(Clone, Copy, Debug, PartialEq)]
pub enum MorselCfg {
    /// what `ParallelPipeline` computes itself from the pressure level
    Critical,
    Normal,
    /// the harness source overrides `generate_morsels` with this size
    Forced(usize),
}
impl MorselCfg {
    pub fn tag(&self) -> String {
        match self {
            MorselCfg::Critical => "crit".into(),
            MorselCfg::Normal => "norm".into(),
            MorselCfg::Forced(n) => format!("f{n}"),
        }
    }
    pub fn parse(s: &str) -> Option<MorselCfg> {
        Some(match s {
            "crit" => MorselCfg::Critical,
            "norm" => MorselCfg::Normal,
            _ => MorselCfg::Forced(s.strip_prefix('f')?.parse().ok()?),
        })
    }
}

/// Wraps a real `ParallelSource`, only replacing the morsel size.
pub struct ForcedMorselSource {
    pub inner: Box<dyn ParallelSource>,
    pub morsel: usize,
}
impl Source for ForcedMorselSource {
    fn next_chunk(&mut self, _n: usize) -> Result<Option<DataChunk>, OperatorError> {
        Ok(None)
    }
    fn reset(&mut self) {}
    fn name(&self) -> &'static str {
        "ForcedMorselSource"
    }
}
impl ParallelSource for ForcedMorselSource {
    fn total_rows(&self) -> Option<usize> {
        self.inner.total_rows()
    }
    fn create_partition(&self, morsel: &Morsel) -> Box<dyn Source> {
        self.inner.create_partition(morsel)
    }
    fn generate_morsels(&self, _morsel_size: usize, source_id: usize) -> Vec<Morsel> {
        par::generate_morsels(self.total_rows().unwrap_or(0), self.morsel, source_id)
    }
    fn num_columns(&self) -> usize {
        self.inner.num_columns()
    }
}

pub fn par_source(rows: &Rows, width: usize, src: Layout) -> Box<dyn ParallelSource> {
    match src {
        Layout::Auto => Box::new(ParallelVectorSource::new(rows_to_cols(rows, width))),
        l => Box::new(ParallelChunkSource::new(l.chunks(rows, width))),
    }
}

#[derive(Clone, Debug, PartialEq)]
pub enum MergeKind {
    Concat,
    ConcatLimit(usize),
    Sorted(Vec<SK>),
    SortedLimit(Vec<SK>, usize),
    Distinct,
    AggGlobal,
    AggGroup,
}

/// The merge phase that makes a per-worker execution of `chain` equivalent to the
/// sequential one, or None when the chain cannot be parallelised this way.
pub fn merge_kind(chain: &[Op]) -> Option<MergeKind> {
    let tag = |o: &Op| match o {
        Op::Filter { .. } => 'F',
        Op::Project => 'P',
        Op::Limit(_) => 'L',
        Op::Distinct => 'D',
        Op::DistinctOn(_) => 'K',
        Op::Sort(_) => 'S',
        Op::AggGlobal => 'A',
        Op::AggGroup => 'G',
    };
    let tags: String = chain.iter().map(tag).collect();
    let all_in = |s: &str, set: &str| s.chars().all(|c| set.contains(c));
    let n = chain.len();
    if n == 0 {
        return Some(MergeKind::Concat);
    }
    let (prefix, last) = (&tags[..n - 1], tags.as_bytes()[n - 1] as char);
    match last {
        _ if all_in(&tags, "FP") => Some(MergeKind::Concat),
        'L' if all_in(prefix, "FP") => {
            let Op::Limit(k) = chain[n - 1] else { unreachable!() };
            Some(MergeKind::ConcatLimit(k))
        }
        'L' if prefix == "S" => {
            let (Op::Sort(keys), Op::Limit(k)) = (&chain[0], &chain[1]) else { unreachable!() };
            Some(MergeKind::SortedLimit(keys.clone(), *k))
        }
        'S' if all_in(prefix, "FPS") => {
            let Op::Sort(keys) = &chain[n - 1] else { unreachable!() };
            Some(MergeKind::Sorted(keys.clone()))
        }
        'F' | 'P' if prefix == "S" => {
            let Op::Sort(keys) = &chain[0] else { unreachable!() };
            Some(MergeKind::Sorted(keys.clone()))
        }
        'D' if all_in(prefix, "FPSD") => Some(MergeKind::Distinct),
        'F' | 'P' if prefix == "D" => Some(MergeKind::Distinct),
        'A' if all_in(prefix, "FPS") => Some(MergeKind::AggGlobal),
        'G' if all_in(prefix, "FPS") => Some(MergeKind::AggGroup),
        _ => None,
    }
}

fn par_keys(k: &[SK]) -> Vec<par::SortKey> {
    k.iter().map(|k| par::SortKey { column: k.col, ascending: k.asc, nulls_first: k.nulls_first }).collect()
}

/// Combine partial aggregate rows (count*, count, sum, min, max, avg) with the real `MergeableAccumulator`.
fn merge_agg_rows(parts: &[&[Value]]) -> Vec<Value> {
    let mut star = 0i64;
    let mut acc = par::MergeableAccumulator::new();
    for p in parts {
        if let Value::Int64(c) = &p[0] {
            star += *c;
        }
        let mut a = par::MergeableAccumulator::new();
        if let Value::Int64(c) = &p[1] {
            a.count = *c;
        }
        a.sum = match &p[2] {
            Value::Float64(f) => *f,
            Value::Int64(i) => *i as f64,
            _ => 0.0,
        };
        a.min = if p[3].is_null() { None } else { Some(p[3].clone()) };
        a.max = if p[4].is_null() { None } else { Some(p[4].clone()) };
        acc.merge(&a);
    }
    vec![Value::Int64(star), acc.finalize_count(), acc.finalize_sum(), acc.finalize_min(), acc.finalize_max(), acc.finalize_avg()]
}

/// The merge phase, done with the helpers of parallel/merge.rs.
pub fn merge_phase(kind: &MergeKind, chunks: Vec<DataChunk>) -> Result<Rows, String> {
    match kind {
        MergeKind::Concat => Ok(chunks_rows(&par::concat_parallel_results(vec![chunks]))),
        MergeKind::ConcatLimit(k) => {
            let mut r = chunks_rows(&par::concat_parallel_results(vec![chunks]));
            r.truncate(*k);
            Ok(r)
        }
        MergeKind::Sorted(keys) | MergeKind::SortedLimit(keys, _) => {
            // every chunk a worker emits after its sort is one sorted run
            let runs: Vec<Vec<DataChunk>> = chunks.into_iter().map(|c| vec![c]).collect();
            let merged = par::merge_sorted_chunks(runs, &par_keys(keys), 2048).map_err(|e| format!("{e}"))?;
            let mut r = chunks_rows(&merged);
            if let MergeKind::SortedLimit(_, k) = kind {
                r.truncate(*k);
            }
            Ok(r)
        }
        MergeKind::Distinct => Ok(chunks_rows(&par::merge_distinct_results(vec![chunks]).map_err(|e| format!("{e}"))?)),
        MergeKind::AggGlobal => {
            let rows = chunks_rows(&chunks);
            let parts: Vec<&[Value]> = rows.iter().map(|r| &r[..]).collect();
            Ok(vec![merge_agg_rows(&parts)])
        }
        MergeKind::AggGroup => {
            let rows = chunks_rows(&chunks);
            let mut order = vec![];
            let mut groups: std::collections::BTreeMap<String, Vec<&Row>> = Default::default();
            for r in &rows {
                let k = crate::model::canon(&r[0]);
                groups
                    .entry(k.clone())
                    .or_insert_with(|| {
                        order.push(k.clone());
                        vec![]
                    })
                    .push(r);
            }
            Ok(order
                .iter()
                .map(|k| {
                    let g = &groups[k];
                    let parts: Vec<&[Value]> = g.iter().map(|r| &r[1..]).collect();
                    let mut row = vec![g[0][0].clone()];
                    row.extend(merge_agg_rows(&parts));
                    row
                })
                .collect())
        }
    }
}

pub fn par_config(workers: usize, morsel: MorselCfg, chunk: usize) -> ParallelPipelineConfig {
    let mut cfg = ParallelPipelineConfig::default().with_workers(workers);
    cfg.chunk_size = chunk;
    cfg.pressure_level = if morsel == MorselCfg::Normal { PressureLevel::Normal } else { PressureLevel::Critical };
    cfg
}

pub struct ParOut {
    pub rows: Result<Rows, String>,
    pub rows_processed: usize,
    pub morsels: usize,
}

pub fn run_parallel(rows: &Rows, width: usize, chain: &[Op], src: Layout, morsel: MorselCfg, chunk: usize, workers: usize) -> Option<ParOut> {
    let kind = merge_kind(chain)?;
    let inner = par_source(rows, width, src);
    let source: Arc<dyn ParallelSource> = match morsel {
        MorselCfg::Forced(m) => Arc::new(ForcedMorselSource { inner, morsel: m }),
        _ => Arc::from(inner),
    };
    let mut f = CloneableOperatorFactory::new();
    for op in chain {
        let op = op.clone();
        f = f.with_operator(move || build_push_op(&op, &PushVariant::Plain, None));
    }
    if chain.iter().any(|o| matches!(o, Op::Sort(_) | Op::Distinct | Op::AggGlobal | Op::AggGroup)) {
        f = f.with_pipeline_breakers();
    }
    let factory: Arc<dyn OperatorChainFactory> = Arc::new(f);
    let p = ParallelPipeline::new(source, factory, par_config(workers, morsel, chunk));
    Some(match p.execute() {
        Ok(res) => {
            let (rp, m) = (res.rows_processed, res.morsels_processed);
            ParOut { rows: merge_phase(&kind, res.chunks), rows_processed: rp, morsels: m }
        }
        Err(e) => ParOut { rows: Err(format!("{e}")), rows_processed: 0, morsels: 0 },
    })
}
