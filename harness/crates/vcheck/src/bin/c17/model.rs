//! Reference model for C17: logical operators over plain `Vec<Vec<Value>>` rows,
//! evaluated "by definition", plus the comparison rules (what the statement fixes
//! and what it leaves open).
use grafeo_common::types::Value;
use std::cmp::Ordering;
use std::collections::BTreeMap;

pub type Row = Vec<Value>;
pub type Rows = Vec<Row>;

/// Type-tagged, injective text form of a value (used as multiset key).
pub fn canon(v: &Value) -> String {
    match v {
        Value::Null => "N".into(),
        Value::Bool(b) => format!("B{}", *b as u8),
        Value::Int64(i) => format!("I{i}"),
        Value::Float64(f) => format!("F{:016x}", f.to_bits()),
        Value::String(s) => format!("S{:?}", s.as_str()),
        Value::Bytes(b) => format!("Y{:?}", &b[..]),
        Value::Timestamp(t) => format!("T{t:?}"),
        Value::List(l) => format!("L[{}]", l.iter().map(canon).collect::<Vec<_>>().join(",")),
        Value::Map(m) => format!("M{{{}}}", m.iter().map(|(k, v)| format!("{k:?}:{}", canon(v))).collect::<Vec<_>>().join(",")),
        Value::Vector(v) => format!("V[{}]", v.iter().map(|f| format!("{:08x}", f.to_bits())).collect::<Vec<_>>().join(",")),
    }
}
pub fn canon_row(r: &[Value]) -> String {
    r.iter().map(canon).collect::<Vec<_>>().join("|")
}
pub fn show_rows(rows: &Rows, max: usize) -> String {
    let mut s: Vec<String> = rows.iter().take(max).map(|r| canon_row(r)).collect();
    if rows.len() > max {
        s.push(format!("… ({} rows)", rows.len()));
    }
    format!("[{}]", s.join(" ; "))
}

/// Sort key. `nulls_first` is applied *before* the direction reversal, which is the
/// convention shared by every sort in the anchored files (pull sort, push sort,
/// external sort, merge helper); see the report for this tolerated reading.
#[derive(Clone, Debug, PartialEq)]
pub struct SK {
    pub col: usize,
    pub asc: bool,
    pub nulls_first: bool,
}

#[derive(Clone, Debug, PartialEq)]
pub enum Op {
    /// keep rows whose column `col` is an Int64 strictly greater than `gt`
    Filter { col: usize, gt: i64 },
    /// (c0, c1, c2, c3 + 1)  — Int64 arithmetic, anything else gives NULL
    Project,
    Limit(usize),
    Distinct,
    DistinctOn(usize),
    Sort(Vec<SK>),
    /// count(*), count(c1), sum(c1), min(c1), max(c1), avg(c1)
    AggGlobal,
    /// group by c0: c0, count(*), count(c1), sum(c1), min(c1), max(c1), avg(c1)
    AggGroup,
}

pub const AGG_COL: usize = 1;
pub const GROUP_COL: usize = 0;

pub fn sort1() -> Vec<SK> {
    vec![SK { col: 0, asc: true, nulls_first: false }]
}
pub fn sort2() -> Vec<SK> {
    vec![SK { col: 0, asc: false, nulls_first: true }, SK { col: 1, asc: true, nulls_first: true }]
}

impl Op {
    pub fn name(&self) -> String {
        match self {
            Op::Filter { col: 3, gt: 2 } => "filter".into(),
            Op::Filter { col: 1, gt: 1 } => "having".into(),
            Op::Filter { col, gt } => format!("filter:{col}:{gt}"),
            Op::Project => "project".into(),
            Op::Limit(k) => format!("limit:{k}"),
            Op::Distinct => "distinct".into(),
            Op::DistinctOn(c) => format!("distinct-on:{c}"),
            Op::Sort(k) if *k == sort1() => "sort1".into(),
            Op::Sort(k) if *k == sort2() => "sort2".into(),
            Op::Sort(_) => "sort?".into(),
            Op::AggGlobal => "agg".into(),
            Op::AggGroup => "agg-group".into(),
        }
    }
    /// Name used in signatures (limit without its count).
    pub fn sig_name(&self) -> String {
        match self {
            Op::Limit(_) => "limit".into(),
            o => o.name(),
        }
    }
    pub fn parse(s: &str) -> Option<Op> {
        Some(match s {
            "filter" => Op::Filter { col: 3, gt: 2 },
            "having" => Op::Filter { col: 1, gt: 1 },
            "project" => Op::Project,
            "distinct" => Op::Distinct,
            "sort1" => Op::Sort(sort1()),
            "sort2" => Op::Sort(sort2()),
            "agg" => Op::AggGlobal,
            "agg-group" => Op::AggGroup,
            _ => {
                if let Some(k) = s.strip_prefix("limit:") {
                    Op::Limit(k.parse().ok()?)
                } else if let Some(c) = s.strip_prefix("distinct-on:") {
                    Op::DistinctOn(c.parse().ok()?)
                } else if let Some(r) = s.strip_prefix("filter:") {
                    let mut it = r.split(':');
                    Op::Filter { col: it.next()?.parse().ok()?, gt: it.next()?.parse().ok()? }
                } else {
                    return None;
                }
            }
        })
    }
}
pub fn chain_name(c: &[Op]) -> String {
    c.iter().map(|o| o.name()).collect::<Vec<_>>().join(">")
}
pub fn chain_sig(c: &[Op]) -> String {
    c.iter().map(|o| o.sig_name()).collect::<Vec<_>>().join(">")
}
pub fn parse_chain(s: &str) -> Option<Vec<Op>> {
    if s.is_empty() {
        return Some(vec![]);
    }
    s.split('>').map(Op::parse).collect()
}

/// (columns compared numerically i.e. Int64(3) == Float64(3.0), SUM columns where NULL == 0 is tolerated against the reference)
pub fn loose_cols(chain: &[Op]) -> (Vec<usize>, Vec<usize>) {
    let mut loose = vec![];
    let mut sums = vec![];
    for o in chain {
        match o {
            Op::AggGlobal => {
                loose = vec![2, 5];
                sums = vec![2];
            }
            Op::AggGroup => {
                loose = vec![3, 6];
                sums = vec![3];
            }
            _ => {}
        }
    }
    (loose, sums)
}

pub fn cmp_vals(a: &Value, b: &Value) -> Ordering {
    match (a, b) {
        (Value::Bool(a), Value::Bool(b)) => a.cmp(b),
        (Value::Int64(a), Value::Int64(b)) => a.cmp(b),
        (Value::Float64(a), Value::Float64(b)) => a.partial_cmp(b).unwrap_or(Ordering::Equal),
        (Value::String(a), Value::String(b)) => a.as_str().cmp(b.as_str()),
        _ => Ordering::Equal,
    }
}
pub fn cmp_rows(a: &[Value], b: &[Value], keys: &[SK]) -> Ordering {
    for k in keys {
        let (x, y) = (a.get(k.col).unwrap_or(&Value::Null), b.get(k.col).unwrap_or(&Value::Null));
        let o = match (x.is_null(), y.is_null()) {
            (true, true) => Ordering::Equal,
            (true, false) => {
                if k.nulls_first {
                    Ordering::Less
                } else {
                    Ordering::Greater
                }
            }
            (false, true) => {
                if k.nulls_first {
                    Ordering::Greater
                } else {
                    Ordering::Less
                }
            }
            _ => cmp_vals(x, y),
        };
        let o = if k.asc { o } else { o.reverse() };
        if o != Ordering::Equal {
            return o;
        }
    }
    Ordering::Equal
}

fn agg_of(vals: &[&Value], star: usize) -> Vec<Value> {
    let nn: Vec<&Value> = vals.iter().copied().filter(|v| !v.is_null()).collect();
    let mut sum = 0.0f64;
    let mut numeric = 0usize;
    for v in &nn {
        match v {
            Value::Int64(i) => {
                sum += *i as f64;
                numeric += 1;
            }
            Value::Float64(f) => {
                sum += *f;
                numeric += 1;
            }
            _ => {}
        }
    }
    let mut mn: Option<&Value> = None;
    let mut mx: Option<&Value> = None;
    for v in &nn {
        if mn.is_none() || cmp_vals(v, mn.unwrap()) == Ordering::Less {
            mn = Some(v);
        }
        if mx.is_none() || cmp_vals(v, mx.unwrap()) == Ordering::Greater {
            mx = Some(v);
        }
    }
    vec![
        Value::Int64(star as i64),
        Value::Int64(nn.len() as i64),
        if numeric == 0 { Value::Null } else { Value::Float64(sum) },
        mn.cloned().unwrap_or(Value::Null),
        mx.cloned().unwrap_or(Value::Null),
        if numeric == 0 { Value::Null } else { Value::Float64(sum / numeric as f64) },
    ]
}

pub fn apply(op: &Op, rows: &Rows) -> Rows {
    match op {
        Op::Filter { col, gt } => rows.iter().filter(|r| matches!(r.get(*col), Some(Value::Int64(x)) if *x > *gt)).cloned().collect(),
        Op::Project => rows
            .iter()
            .map(|r| {
                vec![
                    r[0].clone(),
                    r[1].clone(),
                    r[2].clone(),
                    match &r[3] {
                        Value::Int64(x) => Value::Int64(x + 1),
                        _ => Value::Null,
                    },
                ]
            })
            .collect(),
        Op::Limit(k) => rows.iter().take(*k).cloned().collect(),
        Op::Distinct => {
            let mut seen = std::collections::BTreeSet::new();
            rows.iter().filter(|r| seen.insert(canon_row(r))).cloned().collect()
        }
        Op::DistinctOn(c) => {
            let mut seen = std::collections::BTreeSet::new();
            rows.iter().filter(|r| seen.insert(canon(&r[*c]))).cloned().collect()
        }
        Op::Sort(keys) => {
            let mut v = rows.clone();
            v.sort_by(|a, b| cmp_rows(a, b, keys));
            v
        }
        Op::AggGlobal => {
            let vals: Vec<&Value> = rows.iter().map(|r| &r[AGG_COL]).collect();
            vec![agg_of(&vals, rows.len())]
        }
        Op::AggGroup => {
            let mut order: Vec<String> = vec![];
            let mut groups: BTreeMap<String, (Value, Vec<&Value>)> = BTreeMap::new();
            for r in rows {
                let k = canon(&r[GROUP_COL]);
                let e = groups.entry(k.clone()).or_insert_with(|| {
                    order.push(k.clone());
                    (r[GROUP_COL].clone(), vec![])
                });
                e.1.push(&r[AGG_COL]);
            }
            order
                .iter()
                .map(|k| {
                    let (kv, vals) = &groups[k];
                    let mut row = vec![kv.clone()];
                    row.extend(agg_of(vals, vals.len()));
                    row
                })
                .collect()
        }
    }
}
pub fn eval(chain: &[Op], input: &Rows) -> Rows {
    let mut cur = input.clone();
    for o in chain {
        cur = apply(o, &cur);
    }
    cur
}

// ---------------------------------------------------------------------------
// comparison
// ---------------------------------------------------------------------------

fn norm_val(v: &Value, loose: bool, sum_null_is_zero: bool) -> Value {
    match v {
        Value::Int64(i) if loose => Value::Float64(*i as f64),
        Value::Null if sum_null_is_zero => Value::Float64(0.0),
        o => o.clone(),
    }
}
/// `vs_ref`: additionally treat NULL as 0 in SUM columns (SUM over nothing is 0 in
/// Cypher and NULL in SQL/GQL; the reference does not take sides).
pub fn norm_rows(rows: &Rows, chain: &[Op], vs_ref: bool) -> Rows {
    let (loose, sums) = loose_cols(chain);
    if loose.is_empty() {
        return rows.clone();
    }
    rows.iter().map(|r| r.iter().enumerate().map(|(i, v)| norm_val(v, loose.contains(&i), vs_ref && sums.contains(&i))).collect()).collect()
}

pub type MS = BTreeMap<String, i64>;

pub fn multiset(rows: &Rows) -> MS {
    let mut m = BTreeMap::new();
    for r in rows {
        *m.entry(canon_row(r)).or_insert(0) += 1;
    }
    m
}
/// (missing, extra): rows of `exp` not in `got`, rows of `got` not in `exp` (with multiplicity).
pub fn ms_diff_m(me: &MS, mg: &MS) -> (Vec<String>, Vec<String>) {
    let mut missing = vec![];
    let mut extra = vec![];
    for (k, n) in me {
        let g = *mg.get(k).unwrap_or(&0);
        if g < *n {
            missing.push(format!("{k} x{}", n - g));
        }
    }
    for (k, n) in mg {
        let e = *me.get(k).unwrap_or(&0);
        if e < *n {
            extra.push(format!("{k} x{}", n - e));
        }
    }
    (missing, extra)
}
pub fn is_sorted(rows: &Rows, keys: &[SK]) -> Option<usize> {
    (1..rows.len()).find(|&i| cmp_rows(&rows[i - 1], &rows[i], keys) == Ordering::Greater)
}

/// Memo of reference evaluations for ONE input table (reference results and their
/// multisets are reused across the strategy configurations of an item).
#[derive(Default)]
pub struct Cache {
    ev: std::collections::HashMap<String, std::rc::Rc<Rows>>,
    ms: std::collections::HashMap<String, std::rc::Rc<MS>>,
}
impl Cache {
    pub fn eval(&mut self, chain: &[Op], input: &Rows) -> std::rc::Rc<Rows> {
        let k = chain_name(chain);
        if let Some(r) = self.ev.get(&k) {
            return r.clone();
        }
        let r = std::rc::Rc::new(eval(chain, input));
        self.ev.insert(k, r.clone());
        r
    }
    /// normalised (vs reference) multiset of eval(chain, input); `norm_chain` decides the loose columns
    fn ms(&mut self, chain: &[Op], norm_chain: &[Op], input: &Rows) -> std::rc::Rc<MS> {
        let k = format!("{}#{}", chain_name(chain), chain_name(norm_chain));
        if let Some(r) = self.ms.get(&k) {
            return r.clone();
        }
        let rows = self.eval(chain, input);
        let r = std::rc::Rc::new(multiset(&norm_rows(&rows, norm_chain, true)));
        self.ms.insert(k, r.clone());
        r
    }
}

fn has_agg(chain: &[Op]) -> bool {
    chain.iter().any(|o| matches!(o, Op::AggGlobal | Op::AggGroup))
}

fn diff_kind(chain: &[Op], exp_len: usize, got_len: usize, missing: &[String], extra: &[String]) -> &'static str {
    if has_agg(chain) && exp_len == got_len {
        "wrong-aggregate"
    } else if !missing.is_empty() && extra.is_empty() {
        "missing-rows"
    } else if missing.is_empty() && !extra.is_empty() {
        "extra-rows"
    } else {
        "wrong-rows"
    }
}
fn lst(v: &[String]) -> String {
    let mut s = v.iter().take(4).cloned().collect::<Vec<_>>().join(" ; ");
    if v.len() > 4 {
        s.push_str(&format!(" ; … {} kinds", v.len()));
    }
    s
}

/// `got` must be a sub-multiset of eval(sup_chain, input) (normalised like `norm_chain`).
fn sub_multiset(cache: &mut Cache, got: &Rows, sup_chain: &[Op], norm_chain: &[Op], input: &Rows) -> Option<String> {
    let sup = cache.ms(sup_chain, norm_chain, input);
    let (_, extra) = ms_diff_m(&sup, &multiset(&norm_rows(got, norm_chain, true)));
    if extra.is_empty() { None } else { Some(lst(&extra)) }
}

/// Smallest number of distinct rows that any `t` rows drawn from `u` can have.
fn min_distinct(u: &Rows, t: usize) -> usize {
    let mut mult: Vec<i64> = multiset(u).values().copied().collect();
    mult.sort_by(|a, b| b.cmp(a));
    let mut left = t as i64;
    let mut k = 0;
    for m in mult {
        if left <= 0 {
            break;
        }
        left -= m;
        k += 1;
    }
    k
}

/// Decide whether `got` is an admissible result of `chain` on `input`.
/// Returns (kind, detail) for the first rule broken.
pub fn check(chain: &[Op], input: &Rows, got: &Rows, cache: &mut Cache) -> Option<(&'static str, String)> {
    // DISTINCT ON a column: which representative row survives is open.
    if let [Op::DistinctOn(c)] = chain {
        let exp = cache.eval(chain, input);
        if got.len() != exp.len() {
            return Some((if got.len() < exp.len() { "missing-rows" } else { "extra-rows" }, format!("distinct-on: expected {} rows, got {}", exp.len(), got.len())));
        }
        let ek: Rows = exp.iter().map(|r| vec![r[*c].clone()]).collect();
        let gk: Rows = got.iter().map(|r| vec![r.get(*c).cloned().unwrap_or(Value::Null)]).collect();
        let (m, e) = ms_diff_m(&multiset(&ek), &multiset(&gk));
        if !m.is_empty() || !e.is_empty() {
            return Some(("wrong-rows", format!("distinct-on keys: missing [{}] extra [{}]", lst(&m), lst(&e))));
        }
        if let Some(x) = sub_multiset(cache, got, &[], &[], input) {
            return Some(("wrong-rows", format!("distinct-on: rows not in input: {x}")));
        }
        return None;
    }
    let last_limit = chain.iter().rposition(|o| matches!(o, Op::Limit(_)));
    let Some(pos) = last_limit else {
        let exp_ms = cache.ms(chain, chain, input);
        let exp_len = cache.eval(chain, input).len();
        let (missing, extra) = ms_diff_m(&exp_ms, &multiset(&norm_rows(got, chain, true)));
        if !missing.is_empty() || !extra.is_empty() {
            return Some((diff_kind(chain, exp_len, got.len(), &missing, &extra), format!("expected {} rows, got {}; missing [{}] extra [{}]", exp_len, got.len(), lst(&missing), lst(&extra))));
        }
        if let Some(Op::Sort(keys)) = chain.last() {
            if let Some(i) = is_sorted(got, keys) {
                return Some(("wrong-order", format!("output not sorted at position {i}: {} after {}", canon_row(&got[i]), canon_row(&got[i - 1]))));
            }
        }
        return None;
    };
    let Op::Limit(k) = &chain[pos] else { unreachable!() };
    let pre = &chain[..pos];
    let post = &chain[pos + 1..];
    // universe before the limit, and the number of rows the limit lets through
    let (upre, tsz): (&[Op], usize) = match pre {
        [Op::Limit(k0)] => (&[], (*k).min(*k0).min(input.len())),
        _ => {
            let u = cache.eval(pre, input);
            (pre, (*k).min(u.len()))
        }
    };
    let u = cache.eval(upre, input);
    let size_kind = |g: usize, want: usize| if g < want { "missing-rows" } else { "extra-rows" };
    let cat = |a: &[Op], b: &[Op]| -> Vec<Op> { a.iter().chain(b.iter()).cloned().collect() };
    match post {
        [] => {
            if got.len() != tsz {
                return Some((size_kind(got.len(), tsz), format!("limit {k}: expected {tsz} rows, got {}", got.len())));
            }
            if let Some(x) = sub_multiset(cache, got, upre, upre, input) {
                return Some(("wrong-rows", format!("limit: rows not produced by the input: {x}")));
            }
            if let Some(Op::Sort(keys)) = pre.last() {
                if let Some(i) = is_sorted(got, keys) {
                    return Some(("wrong-order", format!("sort>limit: not sorted at {i}")));
                }
                for i in 0..tsz {
                    if cmp_rows(&got[i], &u[i], keys) != Ordering::Equal {
                        return Some(("wrong-rows", format!("sort>limit: row {i} has key of {} but the {i}-th smallest is {}", canon_row(&got[i]), canon_row(&u[i]))));
                    }
                }
            }
            None
        }
        [Op::Project] | [Op::Sort(_)] | [Op::Limit(_)] => {
            let want = if let [Op::Limit(k2)] = post { tsz.min(*k2) } else { tsz };
            if got.len() != want {
                return Some((size_kind(got.len(), want), format!("limit>{}: expected {want} rows, got {}", post[0].name(), got.len())));
            }
            let supc = cat(upre, post_no_limit(post));
            if let Some(x) = sub_multiset(cache, got, &supc, &[], input) {
                return Some(("wrong-rows", format!("rows not derivable from the input: {x}")));
            }
            if let [Op::Sort(keys)] = post {
                if let Some(i) = is_sorted(got, keys) {
                    return Some(("wrong-order", format!("limit>sort: not sorted at {i}")));
                }
            }
            None
        }
        [Op::Filter { .. }] => {
            let fc = cat(upre, post);
            let fu_len = cache.eval(&fc, input).len();
            let lo = tsz.saturating_sub(u.len() - fu_len);
            if got.len() > tsz {
                return Some(("extra-rows", format!("limit>filter: {} rows > limit {tsz}", got.len())));
            }
            if got.len() < lo {
                return Some(("missing-rows", format!("limit>filter: {} rows, but any {tsz} input rows contain at least {lo} passing rows", got.len())));
            }
            sub_multiset(cache, got, &fc, &[], input).map(|x| ("wrong-rows", format!("rows not derivable: {x}")))
        }
        [Op::Distinct] => {
            let dc = cat(upre, post);
            let du_len = cache.eval(&dc, input).len();
            let hi = tsz.min(du_len);
            let lo = min_distinct(&u, tsz);
            if got.len() > hi {
                return Some(("extra-rows", format!("limit>distinct: {} rows > {hi}", got.len())));
            }
            if got.len() < lo {
                return Some(("missing-rows", format!("limit>distinct: {} rows < {lo}", got.len())));
            }
            if multiset(got).values().any(|&n| n > 1) {
                return Some(("extra-rows", "limit>distinct: duplicate row in output".into()));
            }
            sub_multiset(cache, got, &dc, &[], input).map(|x| ("wrong-rows", format!("rows not derivable: {x}")))
        }
        [Op::AggGlobal] => {
            if got.len() != 1 {
                return Some((size_kind(got.len(), 1), format!("limit>agg: expected 1 row, got {}", got.len())));
            }
            match got[0].first() {
                Some(Value::Int64(c)) if *c as usize == tsz => None,
                o => Some(("wrong-aggregate", format!("limit>agg: count(*) = {o:?}, the limit passes {tsz} rows"))),
            }
        }
        [Op::AggGroup] => {
            let mut total = 0i64;
            let keys_u = multiset(&u.iter().map(|r| vec![r[GROUP_COL].clone()]).collect());
            let mut seen = std::collections::BTreeSet::new();
            for r in got {
                let kc = canon(r.first().unwrap_or(&Value::Null));
                if !seen.insert(kc.clone()) {
                    return Some(("extra-rows", format!("limit>agg-group: group {kc} twice")));
                }
                let c = match r.get(1) {
                    Some(Value::Int64(c)) => *c,
                    _ => return Some(("wrong-aggregate", "limit>agg-group: count(*) not an integer".into())),
                };
                if c > *keys_u.get(&kc).unwrap_or(&0) {
                    return Some(("wrong-aggregate", format!("limit>agg-group: group {kc} has count {c} > multiplicity in input")));
                }
                total += c;
            }
            if total as usize != tsz {
                return Some((if (total as usize) < tsz { "missing-rows" } else { "extra-rows" }, format!("limit>agg-group: counts add up to {total}, the limit passes {tsz} rows")));
            }
            None
        }
        _ => None,
    }
}
fn post_no_limit(post: &[Op]) -> &[Op] {
    if let [Op::Limit(_)] = post { &[] } else { post }
}

/// Chains whose result multiset is fully determined (so two strategies must agree exactly).
pub fn is_exact_chain(chain: &[Op]) -> bool {
    !chain.iter().any(|o| matches!(o, Op::Limit(_) | Op::DistinctOn(_)))
}
