//! C14 — every access path to the property graph tells the same story
//! (engine SEQ on the real `LpgStore` / `GrafeoDB`; DESIGN.md §3/C14).
//!
//! Layers (each its own BFS with its own alphabet, all over the real store):
//!   L1 structure : nodes, labels, edges (self-loops, parallel), delete_node_edges, statistics
//!   L2 property  : set/remove property over a value alphabet, property index create/drop,
//!                  zone-map rebuild, node delete — index == scan, pruning soundness
//!   L3 threshold : macro events driving adjacency across the 64-entry chunk / compaction thresholds
//!   L4 database  : the same structural alphabet through `GrafeoDB` (delete_node cascades there)

use grafeo_common::types::{EdgeId, NodeId, PropertyKey, Value};
use grafeo_core::graph::Direction;
use grafeo_core::graph::lpg::{CompareOp, LpgStore, LpgStoreConfig};
use grafeo_engine::GrafeoDB;
use serde_json::{Value as J, json};
use std::collections::{BTreeMap, BTreeSet};
use vcore::{Report, SeqModel, Tier, sigv};

fn main() {
    std::process::exit(run(vcheck::entry()));
}

const LABELS: [&str; 2] = ["A", "B"];
const ETYPES: [&str; 2] = ["K", "L"];
const KEYS: [&str; 2] = ["p", "q"];

fn val(i: u8) -> Value {
    match i {
        0 => Value::Int64(1),
        1 => Value::Int64(2),
        2 => Value::Float64(2.0),
        3 => Value::String("a".into()),
        4 => Value::Null,
        5 => Value::Float64(f64::NAN),
        6 => Value::Float64(-0.0),
        7 => Value::Float64(0.0),
        8 => Value::Int64(0),
        9 => Value::Bool(true),
        _ => Value::Int64(77), // never stored: "absent" probe
    }
}
fn val_class(v: &Value) -> &'static str {
    match v {
        Value::Float64(f) if f.is_nan() => "nan",
        Value::Float64(f) if *f == 0.0 => "signed-zero",
        Value::Null => "null",
        Value::Float64(_) => "float",
        Value::Int64(_) => "int",
        Value::String(_) => "string",
        _ => "other",
    }
}

#[derive(Clone, Debug, PartialEq)]
enum Ev {
    CreateNode(u8),        // label-set index: 0 = [], 1 = [A], 2 = [A,B], 3 = [B]
    DeleteNode(u8),        // node slot (creation order)
    DeleteNodeEdges(u8),
    CreateEdge(u8, u8, u8), // src slot, dst slot, type
    DeleteEdge(u8),        // edge slot
    AddLabel(u8, u8),
    RemoveLabel(u8, u8),
    SetProp(u8, u8, u8),   // node slot, key, value index
    RemoveProp(u8, u8),
    SetEdgeProp(u8, u8),   // edge slot, value
    RemoveEdgeProp(u8),
    CreateIndex(u8),
    DropIndex(u8),
    RebuildZoneMaps,
    ComputeStats,
    /// threshold layer: add k edges from node slot 0 to node slot 1 (type K)
    AddEdges(u16),
    /// threshold layer: delete every second live edge (by ascending id)
    DeleteEverySecond,
}

fn ev_str(e: &Ev) -> String {
    match e {
        Ev::CreateNode(l) => format!("create_node({l})"),
        Ev::DeleteNode(n) => format!("delete_node({n})"),
        Ev::DeleteNodeEdges(n) => format!("delete_node_edges({n})"),
        Ev::CreateEdge(a, b, t) => format!("create_edge({a},{b},{t})"),
        Ev::DeleteEdge(e) => format!("delete_edge({e})"),
        Ev::AddLabel(n, l) => format!("add_label({n},{l})"),
        Ev::RemoveLabel(n, l) => format!("remove_label({n},{l})"),
        Ev::SetProp(n, k, v) => format!("set_prop({n},{k},{v})"),
        Ev::RemoveProp(n, k) => format!("remove_prop({n},{k})"),
        Ev::SetEdgeProp(e, v) => format!("set_edge_prop({e},{v})"),
        Ev::RemoveEdgeProp(e) => format!("remove_edge_prop({e})"),
        Ev::CreateIndex(k) => format!("create_index({k})"),
        Ev::DropIndex(k) => format!("drop_index({k})"),
        Ev::RebuildZoneMaps => "rebuild_zone_maps()".into(),
        Ev::ComputeStats => "compute_statistics()".into(),
        Ev::AddEdges(k) => format!("add_edges({k})"),
        Ev::DeleteEverySecond => "delete_every_second()".into(),
    }
}
fn parse_ev(s: &str) -> Option<Ev> {
    let (name, rest) = s.split_once('(')?;
    let a: Vec<u16> = rest.trim_end_matches(')').split(',').filter(|x| !x.is_empty()).filter_map(|x| x.trim().parse().ok()).collect();
    let g = |i: usize| a.get(i).copied().map(|x| x as u8);
    Some(match name {
        "create_node" => Ev::CreateNode(g(0)?),
        "delete_node" => Ev::DeleteNode(g(0)?),
        "delete_node_edges" => Ev::DeleteNodeEdges(g(0)?),
        "create_edge" => Ev::CreateEdge(g(0)?, g(1)?, g(2)?),
        "delete_edge" => Ev::DeleteEdge(g(0)?),
        "add_label" => Ev::AddLabel(g(0)?, g(1)?),
        "remove_label" => Ev::RemoveLabel(g(0)?, g(1)?),
        "set_prop" => Ev::SetProp(g(0)?, g(1)?, g(2)?),
        "remove_prop" => Ev::RemoveProp(g(0)?, g(1)?),
        "set_edge_prop" => Ev::SetEdgeProp(g(0)?, g(1)?),
        "remove_edge_prop" => Ev::RemoveEdgeProp(g(0)?),
        "create_index" => Ev::CreateIndex(g(0)?),
        "drop_index" => Ev::DropIndex(g(0)?),
        "rebuild_zone_maps" => Ev::RebuildZoneMaps,
        "compute_statistics" => Ev::ComputeStats,
        "add_edges" => Ev::AddEdges(*a.first()?),
        "delete_every_second" => Ev::DeleteEverySecond,
        _ => return None,
    })
}

fn label_set(i: u8) -> Vec<&'static str> {
    match i {
        0 => vec![],
        1 => vec!["A"],
        2 => vec!["A", "B"],
        _ => vec!["B"],
    }
}

#[derive(Clone, Debug)]
struct MNode {
    id: NodeId,
    live: bool,
    labels: BTreeSet<&'static str>,
    props: BTreeMap<&'static str, Value>,
}
#[derive(Clone, Debug)]
struct MEdge {
    id: EdgeId,
    live: bool,
    src: NodeId,
    dst: NodeId,
    ty: &'static str,
    prop: Option<Value>,
}

enum Real {
    Store(LpgStore),
    Db(GrafeoDB),
}
impl Real {
    fn store(&self) -> &LpgStore {
        match self {
            Real::Store(s) => s,
            Real::Db(d) => d.store(),
        }
    }
}

struct Sys {
    real: Real,
    nodes: Vec<MNode>,
    edges: Vec<MEdge>,
    indexes: BTreeSet<&'static str>,
    stats_fresh: bool,
}

#[derive(Clone, Debug)]
struct Model {
    layer: &'static str, // "structure" | "property" | "threshold" | "database"
    backward: bool,
    max_nodes: usize,
    max_edges: usize,
    label_sets: Vec<u8>,
    values: Vec<u8>,
    keys: u8,
    with_index: bool,
    thresholds: Vec<u16>,
}

fn same_value(a: &Value, b: &Value) -> bool {
    // bit-level identity for reporting / model bookkeeping
    match (a, b) {
        (Value::Float64(x), Value::Float64(y)) => x.to_bits() == y.to_bits(),
        _ => a == b,
    }
}

fn cmp_same_type(a: &Value, b: &Value) -> Option<std::cmp::Ordering> {
    match (a, b) {
        (Value::Int64(x), Value::Int64(y)) => Some(x.cmp(y)),
        (Value::Float64(x), Value::Float64(y)) => x.partial_cmp(y),
        (Value::String(x), Value::String(y)) => Some(x.as_str().cmp(y.as_str())),
        (Value::Bool(x), Value::Bool(y)) => Some(x.cmp(y)),
        _ => None,
    }
}

fn show(v: &Value) -> String {
    match v {
        Value::Float64(f) => format!("Float64({:?}/{:#x})", f, f.to_bits()),
        o => format!("{o:?}"),
    }
}

impl Model {
    fn live_nodes<'a>(&self, sys: &'a Sys) -> Vec<&'a MNode> {
        sys.nodes.iter().filter(|n| n.live).collect()
    }
    fn live_edges<'a>(&self, sys: &'a Sys) -> Vec<&'a MEdge> {
        sys.edges.iter().filter(|e| e.live).collect()
    }

    fn oracle(&self, sys: &Sys, out: &mut Vec<(Vec<(String, String)>, String)>) {
        let st = sys.real.store();
        let ly = self.layer;
        let bw = if self.backward { "on" } else { "off" };
        let mut v = |kind: &str, feat: &str, detail: String| {
            out.push((sigv(&[("layer", ly), ("kind", kind), ("feature", feat), ("backward", bw)]), detail));
        };
        let live_n = self.live_nodes(sys);
        let live_e = self.live_edges(sys);
        let any_deleted_node = sys.nodes.iter().any(|n| !n.live);
        let del_feat = if any_deleted_node { "after-node-delete" } else { "plain" };

        // ---- node enumeration / counts / point lookups
        let want_ids: Vec<NodeId> = live_n.iter().map(|n| n.id).collect();
        let got_ids = st.node_ids();
        if got_ids != want_ids {
            v("node_ids", del_feat, format!("node_ids() = {got_ids:?}, live = {want_ids:?}"));
        }
        if st.node_count() != want_ids.len() {
            v("node_count", del_feat, format!("node_count() = {}, live nodes = {}", st.node_count(), want_ids.len()));
        }
        let mut all: Vec<NodeId> = st.all_nodes().map(|n| n.id).collect();
        all.sort();
        if all != want_ids {
            v("all_nodes", del_feat, format!("all_nodes() ids = {all:?}, live = {want_ids:?}"));
        }
        for n in &sys.nodes {
            let got = st.get_node(n.id);
            match (&got, n.live) {
                (None, false) => {}
                (Some(g), true) => {
                    let gl: BTreeSet<String> = g.labels.iter().map(|l| l.to_string()).collect();
                    let wl: BTreeSet<String> = n.labels.iter().map(|l| l.to_string()).collect();
                    if gl != wl || g.labels.len() != wl.len() {
                        v("get_node-labels", "plain", format!("get_node({:?}).labels = {:?}, model {:?}", n.id, g.labels, wl));
                    }
                    let gp: Vec<(String, String)> = g.properties.iter().map(|(k, x)| (k.as_str().to_string(), show(x))).collect();
                    let wp: Vec<(String, String)> = n.props.iter().map(|(k, x)| (k.to_string(), show(x))).collect();
                    if gp != wp {
                        v("get_node-properties", "plain", format!("get_node({:?}).properties = {gp:?}, model {wp:?}", n.id));
                    }
                    for k in KEYS {
                        let got = st.get_node_property(n.id, &PropertyKey::new(k));
                        let want = n.props.get(k);
                        let ok = match (&got, want) {
                            (None, None) => true,
                            (Some(a), Some(b)) => same_value(a, b),
                            _ => false,
                        };
                        if !ok {
                            v("get_node_property", "plain", format!("get_node_property({:?},{k}) = {got:?}, model {want:?}", n.id));
                        }
                    }
                }
                (Some(_), false) => v("get_node-returns-deleted", "deleted-entity-visible", format!("get_node({:?}) returns a deleted node", n.id)),
                (None, true) => v("get_node-missing", "plain", format!("get_node({:?}) = None for a live node", n.id)),
            }
        }
        if st.get_node(NodeId::new(1000)).is_some() {
            v("get_node-phantom", "plain", "get_node(1000) returned a node that was never created".into());
        }

        // ---- label index
        for l in ["A", "B", "Z"] {
            let want: Vec<NodeId> = live_n.iter().filter(|n| n.labels.contains(l)).map(|n| n.id).collect();
            let got = st.nodes_by_label(l);
            if got != want {
                let feat = if got.iter().any(|id| sys.nodes.iter().any(|n| n.id == *id && !n.live)) { "deleted-entity-visible" } else { del_feat };
                v("nodes_by_label", feat, format!("nodes_by_label({l}) = {got:?}, live nodes carrying it = {want:?}"));
            }
            let mut got2: Vec<NodeId> = st.nodes_with_label(l).map(|n| n.id).collect();
            got2.sort();
            if got2 != want {
                v("nodes_with_label", del_feat, format!("nodes_with_label({l}) = {got2:?}, expected {want:?}"));
            }
        }

        // ---- edges: enumeration, point lookup, adjacency in both directions, degrees
        let mut want_e: Vec<(u64, u64, u64, String)> = live_e.iter().map(|e| (e.id.as_u64(), e.src.as_u64(), e.dst.as_u64(), e.ty.to_string())).collect();
        want_e.sort();
        let mut got_e: Vec<(u64, u64, u64, String)> = st.all_edges().map(|e| (e.id.as_u64(), e.src.as_u64(), e.dst.as_u64(), e.edge_type.to_string())).collect();
        got_e.sort();
        let edge_feat = if sys.edges.iter().any(|e| !e.live) { "after-edge-delete" } else { "plain" };
        if got_e != want_e {
            v("all_edges", edge_feat, format!("all_edges() = {}, live = {}", brief(&got_e), brief(&want_e)));
        }
        if st.edge_count() != want_e.len() {
            v("edge_count", edge_feat, format!("edge_count() = {}, live edges = {}", st.edge_count(), want_e.len()));
        }
        if self.layer != "threshold" {
            for e in &sys.edges {
                let got = st.get_edge(e.id);
                match (&got, e.live) {
                    (None, false) => {}
                    (Some(g), true) => {
                        if g.src != e.src || g.dst != e.dst || g.edge_type.as_str() != e.ty {
                            v("get_edge", "plain", format!("get_edge({:?}) = {:?}->{:?}:{}, model {:?}->{:?}:{}", e.id, g.src, g.dst, g.edge_type, e.src, e.dst, e.ty));
                        }
                        let gp = g.properties.get(&PropertyKey::new("w"));
                        let ok = match (gp, &e.prop) {
                            (None, None) => true,
                            (Some(a), Some(b)) => same_value(a, b),
                            _ => false,
                        };
                        if !ok {
                            v("get_edge-properties", "plain", format!("edge {:?} property w = {gp:?}, model {:?}", e.id, e.prop));
                        }
                        if st.edge_type(e.id).map(|t| t.to_string()) != Some(e.ty.to_string()) {
                            v("edge_type", "plain", format!("edge_type({:?}) = {:?}, model {}", e.id, st.edge_type(e.id), e.ty));
                        }
                    }
                    (Some(_), false) => v("get_edge-returns-deleted", "deleted-entity-visible", format!("get_edge({:?}) returns a deleted edge", e.id)),
                    (None, true) => v("get_edge-missing", "plain", format!("get_edge({:?}) = None for a live edge", e.id)),
                }
            }
            for t in ["K", "L"] {
                let mut got: Vec<u64> = st.edges_with_type(t).map(|e| e.id.as_u64()).collect();
                got.sort();
                let want: Vec<u64> = {
                    let mut w: Vec<u64> = live_e.iter().filter(|e| e.ty == t).map(|e| e.id.as_u64()).collect();
                    w.sort();
                    w
                };
                if got != want {
                    v("edges_with_type", edge_feat, format!("edges_with_type({t}) = {got:?}, expected {want:?}"));
                }
            }
        }
        for n in &sys.nodes {
            let mut want_out: Vec<(u64, u64)> = live_e.iter().filter(|e| e.src == n.id).map(|e| (e.dst.as_u64(), e.id.as_u64())).collect();
            want_out.sort();
            let mut want_in: Vec<(u64, u64)> = live_e.iter().filter(|e| e.dst == n.id).map(|e| (e.src.as_u64(), e.id.as_u64())).collect();
            want_in.sort();
            let feat = if want_out.len() + want_in.len() >= 60 { "long-list" } else { edge_feat };
            let mut got_out: Vec<(u64, u64)> = st.edges_from(n.id, Direction::Outgoing).map(|(d, e)| (d.as_u64(), e.as_u64())).collect();
            got_out.sort();
            if got_out != want_out {
                v("edges_from-outgoing", feat, format!("edges_from({:?},Out) = {}, live = {}", n.id, brief(&got_out), brief(&want_out)));
            }
            let mut got_to: Vec<(u64, u64)> = st.edges_to(n.id).iter().map(|(s, e)| (s.as_u64(), e.as_u64())).collect();
            got_to.sort();
            if got_to != want_in {
                v("edges_to", feat, format!("edges_to({:?}) = {}, live = {}", n.id, brief(&got_to), brief(&want_in)));
            }
            let mut nb_out: Vec<u64> = st.neighbors(n.id, Direction::Outgoing).map(|x| x.as_u64()).collect();
            nb_out.sort();
            let want_nb_out: Vec<u64> = want_out.iter().map(|x| x.0).collect();
            if nb_out != want_nb_out {
                v("neighbors-outgoing", feat, format!("neighbors({:?},Out) = {}, expected {}", n.id, brief(&nb_out), brief(&want_nb_out)));
            }
            if st.out_degree(n.id) != want_out.len() {
                v("out_degree", feat, format!("out_degree({:?}) = {}, live outgoing = {}", n.id, st.out_degree(n.id), want_out.len()));
            }
            if st.in_degree(n.id) != want_in.len() {
                v("in_degree", feat, format!("in_degree({:?}) = {}, live incoming = {}", n.id, st.in_degree(n.id), want_in.len()));
            }
            if self.backward {
                let mut got_in: Vec<(u64, u64)> = st.edges_from(n.id, Direction::Incoming).map(|(d, e)| (d.as_u64(), e.as_u64())).collect();
                got_in.sort();
                if got_in != want_in {
                    v("edges_from-incoming", feat, format!("edges_from({:?},In) = {}, live = {}", n.id, brief(&got_in), brief(&want_in)));
                }
                let mut nb_in: Vec<u64> = st.neighbors(n.id, Direction::Incoming).map(|x| x.as_u64()).collect();
                nb_in.sort();
                let want_nb_in: Vec<u64> = want_in.iter().map(|x| x.0).collect();
                if nb_in != want_nb_in {
                    v("neighbors-incoming", feat, format!("neighbors({:?},In) = {}, expected {}", n.id, brief(&nb_in), brief(&want_nb_in)));
                }
                let mut nb_both: Vec<u64> = st.neighbors(n.id, Direction::Both).map(|x| x.as_u64()).collect();
                nb_both.sort();
                let mut want_both: Vec<u64> = want_nb_out.iter().chain(want_nb_in.iter()).copied().collect();
                want_both.sort();
                if nb_both != want_both {
                    v("neighbors-both", feat, format!("neighbors({:?},Both) = {}, expected {}", n.id, brief(&nb_both), brief(&want_both)));
                }
            }
        }

        // ---- property lookups: index == scan == model; range; pruning soundness
        if self.layer == "property" {
            for (ki, k) in KEYS.iter().enumerate().take(self.keys as usize) {
                let _ = ki;
                let indexed = sys.indexes.contains(k);
                if st.has_property_index(k) != indexed {
                    v("has_property_index", "plain", format!("has_property_index({k}) = {}, model {}", st.has_property_index(k), indexed));
                }
                let mut probes: Vec<u8> = self.values.clone();
                probes.push(99);
                for pv in probes {
                    let pvv = val(pv);
                    // scan semantics: live nodes whose stored value == probe under `Value ==`
                    let want: Vec<NodeId> = live_n.iter().filter(|n| n.props.get(k).is_some_and(|x| *x == pvv)).map(|n| n.id).collect();
                    let mut got = st.find_nodes_by_property(k, &pvv);
                    got.sort();
                    if got != want {
                        let returns_deleted = got.iter().any(|id| sys.nodes.iter().any(|n| n.id == *id && !n.live));
                        let feat = if returns_deleted {
                            "deleted-node-in-index".to_string()
                        } else {
                            format!("probe-{}", val_class(&pvv))
                        };
                        let kind = if indexed { "find_by_property-index-vs-scan" } else { "find_by_property-scan" };
                        v(kind, &feat, format!("find_nodes_by_property({k}, {}) [{}] = {got:?}, scan over live nodes = {want:?}", show(&pvv), if indexed { "indexed" } else { "no index" }));
                    }
                    let mut got2 = st.find_nodes_by_properties(&[(k, pvv.clone())]);
                    got2.sort();
                    if got2 != want {
                        let returns_deleted = got2.iter().any(|id| sys.nodes.iter().any(|n| n.id == *id && !n.live));
                        let feat = if returns_deleted { "deleted-node-in-index".to_string() } else { format!("probe-{}", val_class(&pvv)) };
                        let kind = if indexed { "find_by_properties-index-vs-scan" } else { "find_by_properties-scan" };
                        v(kind, &feat, format!("find_nodes_by_properties([{k}={}]) = {got2:?}, expected {want:?}", show(&pvv)));
                    }
                    // pruning: `false` claims that no live node matches
                    let key = PropertyKey::new(*k);
                    for (op, name) in [(CompareOp::Eq, "eq"), (CompareOp::Ne, "ne"), (CompareOp::Lt, "lt"), (CompareOp::Le, "le"), (CompareOp::Gt, "gt"), (CompareOp::Ge, "ge")] {
                        if st.node_property_might_match(&key, op, &pvv) {
                            continue;
                        }
                        // a definite match: a live node whose stored value is of the same variant and satisfies op
                        let witness = live_n.iter().find(|n| {
                            n.props.get(k).is_some_and(|x| match op {
                                CompareOp::Eq => *x == pvv,
                                CompareOp::Ne => std::mem::discriminant(x) == std::mem::discriminant(&pvv) && !x.is_null() && *x != pvv && cmp_same_type(x, &pvv).is_some(),
                                CompareOp::Lt => cmp_same_type(x, &pvv) == Some(std::cmp::Ordering::Less),
                                CompareOp::Le => matches!(cmp_same_type(x, &pvv), Some(std::cmp::Ordering::Less | std::cmp::Ordering::Equal)),
                                CompareOp::Gt => cmp_same_type(x, &pvv) == Some(std::cmp::Ordering::Greater),
                                CompareOp::Ge => matches!(cmp_same_type(x, &pvv), Some(std::cmp::Ordering::Greater | std::cmp::Ordering::Equal)),
                            })
                        });
                        if let Some(w) = witness {
                            let mixed = live_n.iter().filter_map(|n| n.props.get(k)).map(std::mem::discriminant).collect::<Vec<_>>();
                            let is_mixed = mixed.windows(2).any(|p| p[0] != p[1]);
                            let feat = format!("{}-{}", if is_mixed { "mixed-type-column" } else { "single-type-column" }, val_class(&pvv));
                            v(&format!("pruning-claims-no-match-{name}"), &feat, format!("node_property_might_match({k}, {name}, {}) = false but node {:?} has {k} = {}", show(&pvv), w.id, show(&w.props[k])));
                        }
                    }
                }
                // range lookups over integer bounds
                for (lo, hi, li, hi_i) in [(Some(1i64), Some(2i64), true, true), (Some(1), Some(2), false, true), (Some(1), None, false, false), (None, Some(1), true, true), (Some(0), Some(0), true, true), (Some(2), Some(1), true, true)] {
                    let lov = lo.map(Value::Int64);
                    let hiv = hi.map(Value::Int64);
                    let mut got = st.find_nodes_in_range(k, lov.as_ref(), hiv.as_ref(), li, hi_i);
                    got.sort();
                    let in_range = |x: i64| lo.is_none_or(|l| if li { x >= l } else { x > l }) && hi.is_none_or(|h| if hi_i { x <= h } else { x < h });
                    let must: Vec<NodeId> = live_n.iter().filter(|n| matches!(n.props.get(k), Some(Value::Int64(x)) if in_range(*x))).map(|n| n.id).collect();
                    // cross-type numeric matches (Float stored, Int bounds) are tolerated either way
                    let may: Vec<NodeId> = live_n.iter().filter(|n| matches!(n.props.get(k), Some(Value::Float64(f)) if f.fract() == 0.0 && in_range(*f as i64))).map(|n| n.id).collect();
                    let missing: Vec<&NodeId> = must.iter().filter(|id| !got.contains(id)).collect();
                    let surplus: Vec<&NodeId> = got.iter().filter(|id| !must.contains(id) && !may.contains(id)).collect();
                    if !missing.is_empty() || !surplus.is_empty() {
                        v(if missing.is_empty() { "find_in_range-surplus" } else { "find_in_range-missing" }, del_feat, format!("find_nodes_in_range({k}, {lo:?}, {hi:?}, {li}, {hi_i}) = {got:?}, expected {must:?} (tolerated extra {may:?})"));
                    }
                }
            }
        }

        // ---- statistics after refresh
        if sys.stats_fresh {
            let s = st.statistics();
            if s.total_nodes != want_ids.len() as u64 || s.total_edges != want_e.len() as u64 {
                v("statistics-totals", del_feat, format!("statistics totals = {}/{}, counts = {}/{}", s.total_nodes, s.total_edges, want_ids.len(), want_e.len()));
            }
            for l in LABELS {
                let want = live_n.iter().filter(|n| n.labels.contains(l)).count() as u64;
                let got = s.labels.get(l).map_or(0, |x| x.node_count);
                if got != want {
                    v("statistics-label-cardinality", del_feat, format!("statistics label {l} node_count = {got}, live = {want}"));
                }
            }
            for t in ETYPES {
                let want = live_e.iter().filter(|e| e.ty == t).count() as u64;
                let got = s.edge_types.get(t).map_or(0, |x| x.edge_count);
                if got != want {
                    v("statistics-edge-type-cardinality", edge_feat, format!("statistics edge type {t} edge_count = {got}, live = {want}"));
                }
            }
        }
        if let Real::Db(db) = &sys.real {
            if db.node_count() != want_ids.len() || db.edge_count() != want_e.len() {
                v("db-counts", del_feat, format!("GrafeoDB node_count/edge_count = {}/{}, live = {}/{}", db.node_count(), db.edge_count(), want_ids.len(), want_e.len()));
            }
            let val = db.validate();
            if !val.errors.is_empty() {
                v("db-validate", del_feat, format!("validate() reports {:?}", val.errors));
            }
        }
    }
}

fn brief<T: std::fmt::Debug>(v: &[T]) -> String {
    if v.len() <= 8 { format!("{v:?}") } else { format!("[{} entries; first {:?} … last {:?}]", v.len(), &v[..3], &v[v.len() - 2..]) }
}

impl SeqModel for Model {
    type Ev = Ev;
    type Sys = Sys;
    fn init(&self) -> Sys {
        let real = if self.layer == "database" {
            Real::Db(GrafeoDB::new_in_memory())
        } else {
            Real::Store(LpgStore::with_config(LpgStoreConfig { backward_edges: self.backward, initial_node_capacity: 8, initial_edge_capacity: 8 }))
        };
        let mut sys = Sys { real, nodes: vec![], edges: vec![], indexes: BTreeSet::new(), stats_fresh: false };
        if self.layer == "threshold" {
            // two nodes to hang the edge lists on
            let mut sink = vec![];
            self.apply(&mut sys, &Ev::CreateNode(0), false, &mut sink);
            self.apply(&mut sys, &Ev::CreateNode(0), false, &mut sink);
        }
        sys
    }
    fn enabled(&self, sys: &Sys, hist: &[Ev]) -> Vec<Ev> {
        let mut v = vec![];
        let live_nodes: Vec<u8> = sys.nodes.iter().enumerate().filter(|(_, n)| n.live).map(|(i, _)| i as u8).collect();
        let live_edges: Vec<u8> = sys.edges.iter().enumerate().filter(|(_, e)| e.live).map(|(i, _)| i as u8).collect();
        if self.layer == "threshold" {
            let macros = hist.len();
            if macros < 3 {
                for k in &self.thresholds {
                    v.push(Ev::AddEdges(*k));
                }
            }
            if !live_edges.is_empty() || sys.edges.iter().any(|e| e.live) {
                v.push(Ev::DeleteEverySecond);
                v.push(Ev::DeleteNodeEdges(0));
            }
            return v;
        }
        if sys.nodes.len() < self.max_nodes {
            for l in &self.label_sets {
                v.push(Ev::CreateNode(*l));
            }
        }
        for &n in &live_nodes {
            let has_edges = sys.edges.iter().any(|e| e.live && (e.src == sys.nodes[n as usize].id || e.dst == sys.nodes[n as usize].id));
            // LpgStore::delete_node is documented as non-cascading ("use delete_node_edges() first"):
            // at store level it is only issued on detached nodes; GrafeoDB::delete_node cascades.
            if !has_edges || self.layer == "database" {
                v.push(Ev::DeleteNode(n));
            }
            if has_edges && self.layer != "database" {
                v.push(Ev::DeleteNodeEdges(n));
            }
        }
        // one probe on an already deleted node (must be refused)
        if let Some((i, _)) = sys.nodes.iter().enumerate().find(|(_, n)| !n.live) {
            v.push(Ev::DeleteNode(i as u8));
        }
        if self.layer == "structure" || self.layer == "database" {
            if sys.edges.len() < self.max_edges {
                for &a in &live_nodes {
                    for &b in &live_nodes {
                        for t in 0..2u8 {
                            v.push(Ev::CreateEdge(a, b, t));
                        }
                    }
                }
            }
            for &e in &live_edges {
                v.push(Ev::DeleteEdge(e));
            }
            if let Some((i, _)) = sys.edges.iter().enumerate().find(|(_, e)| !e.live) {
                v.push(Ev::DeleteEdge(i as u8));
            }
            for &n in &live_nodes {
                for l in 0..2u8 {
                    v.push(Ev::AddLabel(n, l));
                    v.push(Ev::RemoveLabel(n, l));
                }
            }
            if !sys.stats_fresh {
                v.push(Ev::ComputeStats);
            }
            if self.layer == "structure" {
                for &e in &live_edges {
                    if sys.edges[e as usize].prop.is_none() {
                        v.push(Ev::SetEdgeProp(e, 0));
                    } else {
                        v.push(Ev::RemoveEdgeProp(e));
                    }
                }
            }
        }
        if self.layer == "property" {
            for &n in &live_nodes {
                for k in 0..self.keys {
                    for val_i in &self.values {
                        v.push(Ev::SetProp(n, k, *val_i));
                    }
                    if sys.nodes[n as usize].props.contains_key(KEYS[k as usize]) {
                        v.push(Ev::RemoveProp(n, k));
                    }
                }
            }
            if self.with_index {
                for k in 0..self.keys {
                    if sys.indexes.contains(KEYS[k as usize]) {
                        v.push(Ev::DropIndex(k));
                    } else {
                        v.push(Ev::CreateIndex(k));
                    }
                }
            }
            if hist.last() != Some(&Ev::RebuildZoneMaps) {
                v.push(Ev::RebuildZoneMaps);
            }
        }
        v
    }
    fn apply(&self, sys: &mut Sys, ev: &Ev, check: bool, out: &mut Vec<(Vec<(String, String)>, String)>) {
        let ly = self.layer;
        let bw = if self.backward { "on" } else { "off" };
        let mut ret = |kind: &str, detail: String| {
            if check {
                out.push((sigv(&[("layer", ly), ("kind", kind), ("feature", "return-value"), ("backward", bw)]), detail));
            }
        };
        sys.stats_fresh = false;
        match ev.clone() {
            Ev::CreateNode(l) => {
                let labels = label_set(l);
                let id = match &sys.real {
                    Real::Store(s) => s.create_node(&labels),
                    Real::Db(d) => d.create_node(&labels),
                };
                if sys.nodes.iter().any(|n| n.id == id) {
                    ret("create_node-id-reused", format!("create_node returned id {id:?} again"));
                }
                sys.nodes.push(MNode { id, live: true, labels: labels.into_iter().collect(), props: BTreeMap::new() });
            }
            Ev::DeleteNode(n) => {
                let (id, live) = (sys.nodes[n as usize].id, sys.nodes[n as usize].live);
                let r = match &sys.real {
                    Real::Store(s) => s.delete_node(id),
                    Real::Db(d) => d.delete_node(id),
                };
                if r != live {
                    ret("delete_node-return", format!("delete_node({id:?}) returned {r}, node was {}", if live { "live" } else { "already deleted" }));
                }
                if live {
                    sys.nodes[n as usize].live = false;
                    sys.nodes[n as usize].labels.clear();
                    sys.nodes[n as usize].props.clear();
                    if self.layer == "database" {
                        for e in sys.edges.iter_mut() {
                            if e.live && (e.src == id || e.dst == id) {
                                e.live = false;
                            }
                        }
                    }
                }
            }
            Ev::DeleteNodeEdges(n) => {
                let id = sys.nodes[n as usize].id;
                sys.real.store().delete_node_edges(id);
                for e in sys.edges.iter_mut() {
                    if e.live && (e.src == id || e.dst == id) {
                        e.live = false;
                        e.prop = None;
                    }
                }
            }
            Ev::CreateEdge(a, b, t) => {
                let (src, dst) = (sys.nodes[a as usize].id, sys.nodes[b as usize].id);
                let ty = ETYPES[t as usize];
                let id = match &sys.real {
                    Real::Store(s) => s.create_edge(src, dst, ty),
                    Real::Db(d) => d.create_edge(src, dst, ty),
                };
                if sys.edges.iter().any(|e| e.id == id) {
                    ret("create_edge-id-reused", format!("create_edge returned id {id:?} again"));
                }
                sys.edges.push(MEdge { id, live: true, src, dst, ty, prop: None });
            }
            Ev::DeleteEdge(e) => {
                let (id, live) = (sys.edges[e as usize].id, sys.edges[e as usize].live);
                let r = match &sys.real {
                    Real::Store(s) => s.delete_edge(id),
                    Real::Db(d) => d.delete_edge(id),
                };
                if r != live {
                    ret("delete_edge-return", format!("delete_edge({id:?}) returned {r}, edge was {}", if live { "live" } else { "already deleted" }));
                }
                sys.edges[e as usize].live = false;
                sys.edges[e as usize].prop = None;
            }
            Ev::AddLabel(n, l) => {
                let id = sys.nodes[n as usize].id;
                let lab = LABELS[l as usize];
                let r = match &sys.real {
                    Real::Store(s) => s.add_label(id, lab),
                    Real::Db(d) => d.add_node_label(id, lab),
                };
                let want = sys.nodes[n as usize].labels.insert(lab);
                if r != want {
                    ret("add_label-return", format!("add_label({id:?},{lab}) returned {r}, expected {want}"));
                }
            }
            Ev::RemoveLabel(n, l) => {
                let id = sys.nodes[n as usize].id;
                let lab = LABELS[l as usize];
                let r = match &sys.real {
                    Real::Store(s) => s.remove_label(id, lab),
                    Real::Db(d) => d.remove_node_label(id, lab),
                };
                let want = sys.nodes[n as usize].labels.remove(lab);
                if r != want {
                    ret("remove_label-return", format!("remove_label({id:?},{lab}) returned {r}, expected {want}"));
                }
            }
            Ev::SetProp(n, k, vi) => {
                let id = sys.nodes[n as usize].id;
                sys.real.store().set_node_property(id, KEYS[k as usize], val(vi));
                sys.nodes[n as usize].props.insert(KEYS[k as usize], val(vi));
            }
            Ev::RemoveProp(n, k) => {
                let id = sys.nodes[n as usize].id;
                let r = sys.real.store().remove_node_property(id, KEYS[k as usize]);
                let want = sys.nodes[n as usize].props.remove(KEYS[k as usize]);
                let ok = match (&r, &want) {
                    (None, None) => true,
                    (Some(a), Some(b)) => same_value(a, b),
                    _ => false,
                };
                if !ok {
                    ret("remove_node_property-return", format!("remove_node_property returned {r:?}, model had {want:?}"));
                }
            }
            Ev::SetEdgeProp(e, vi) => {
                let id = sys.edges[e as usize].id;
                sys.real.store().set_edge_property(id, "w", val(vi));
                sys.edges[e as usize].prop = Some(val(vi));
            }
            Ev::RemoveEdgeProp(e) => {
                let id = sys.edges[e as usize].id;
                let r = sys.real.store().remove_edge_property(id, "w");
                let want = sys.edges[e as usize].prop.take();
                if r.is_some() != want.is_some() {
                    ret("remove_edge_property-return", format!("remove_edge_property returned {r:?}, model had {want:?}"));
                }
            }
            Ev::CreateIndex(k) => {
                sys.real.store().create_property_index(KEYS[k as usize]);
                sys.indexes.insert(KEYS[k as usize]);
            }
            Ev::DropIndex(k) => {
                let r = sys.real.store().drop_property_index(KEYS[k as usize]);
                let want = sys.indexes.remove(KEYS[k as usize]);
                if r != want {
                    ret("drop_property_index-return", format!("drop_property_index returned {r}, expected {want}"));
                }
            }
            Ev::RebuildZoneMaps => sys.real.store().rebuild_zone_maps(),
            Ev::ComputeStats => {
                sys.real.store().compute_statistics();
                sys.stats_fresh = true;
            }
            Ev::AddEdges(k) => {
                let (src, dst) = (sys.nodes[0].id, sys.nodes[1].id);
                for i in 0..k {
                    // alternate destinations so both adjacency directions get long lists, incl. self-loops
                    let d = if i % 3 == 2 { src } else { dst };
                    let id = sys.real.store().create_edge(src, d, "K");
                    sys.edges.push(MEdge { id, live: true, src, dst: d, ty: "K", prop: None });
                }
            }
            Ev::DeleteEverySecond => {
                let ids: Vec<usize> = sys.edges.iter().enumerate().filter(|(_, e)| e.live).map(|(i, _)| i).collect();
                for (j, i) in ids.iter().enumerate() {
                    if j % 2 == 0 {
                        let r = sys.real.store().delete_edge(sys.edges[*i].id);
                        if !r {
                            ret("delete_edge-return", format!("delete_edge({:?}) returned false for a live edge", sys.edges[*i].id));
                        }
                        sys.edges[*i].live = false;
                    }
                }
            }
        }
        if check {
            self.oracle(sys, out);
        }
    }
    fn key(&self, sys: &Sys) -> String {
        // Observation through the public API (sorted), plus the zone-map summaries the API exposes,
        // plus the ledger facts the future depends on (ids handed out, indexes, stats freshness).
        let st = sys.real.store();
        let mut s = String::new();
        for n in &sys.nodes {
            let g = st.get_node(n.id);
            s.push_str(&format!("n{}:{}", n.id.as_u64(), n.live as u8));
            if let Some(g) = g {
                let mut l: Vec<String> = g.labels.iter().map(|x| x.to_string()).collect();
                l.sort();
                s.push_str(&format!("{l:?}"));
                for (k, v) in &g.properties {
                    s.push_str(&format!("{}={};", k.as_str(), show(v)));
                }
            }
            s.push('|');
        }
        if self.layer == "threshold" {
            s.push_str(&format!("E{}:{}", sys.edges.len(), sys.edges.iter().filter(|e| e.live).count()));
            let live: Vec<u64> = sys.edges.iter().filter(|e| e.live).map(|e| e.id.as_u64()).collect();
            s.push_str(&format!("{:x}", vcore::hash_of(&live)));
        } else {
            for e in &sys.edges {
                s.push_str(&format!("e{}:{}:{}>{}:{}:{:?}|", e.id.as_u64(), e.live as u8, e.src.as_u64(), e.dst.as_u64(), e.ty, e.prop.as_ref().map(show)));
            }
        }
        s.push_str(&format!("I{:?}S{}", sys.indexes, sys.stats_fresh as u8));
        if self.layer == "property" {
            for k in KEYS.iter().take(self.keys as usize) {
                let key = PropertyKey::new(*k);
                if let Some(z) = st.node_property_zone_map(&key) {
                    s.push_str(&format!("Z{k}:{:?}:{:?}:{}:{}", z.min.as_ref().map(show), z.max.as_ref().map(show), z.null_count, z.row_count));
                }
                // dirty flag shows as "everything might match"
                let dirty_probe = st.node_property_might_match(&key, CompareOp::Eq, &Value::Int64(123456));
                s.push_str(&format!("D{}", dirty_probe as u8));
            }
        }
        s
    }
    fn ev_str(&self, ev: &Ev) -> String {
        ev_str(ev)
    }
    fn engine_name(&self) -> String {
        format!("SEQ/lpg/{}", self.layer)
    }
    fn config_json(&self) -> J {
        json!({"layer": self.layer, "backward": self.backward, "max_nodes": self.max_nodes, "max_edges": self.max_edges, "label_sets": self.label_sets, "values": self.values, "keys": self.keys, "with_index": self.with_index, "thresholds": self.thresholds})
    }
    fn nontrivial(&self, sys: &Sys) -> bool {
        sys.nodes.iter().any(|n| n.live)
    }
}

fn model_from_json(c: &J) -> Model {
    let layer = match c["layer"].as_str().unwrap_or("structure") {
        "property" => "property",
        "threshold" => "threshold",
        "database" => "database",
        _ => "structure",
    };
    let arr = |k: &str| c[k].as_array().map(|a| a.iter().filter_map(|x| x.as_u64()).collect::<Vec<u64>>()).unwrap_or_default();
    Model {
        layer,
        backward: c["backward"].as_bool().unwrap_or(true),
        max_nodes: c["max_nodes"].as_u64().unwrap_or(2) as usize,
        max_edges: c["max_edges"].as_u64().unwrap_or(2) as usize,
        label_sets: arr("label_sets").into_iter().map(|x| x as u8).collect(),
        values: arr("values").into_iter().map(|x| x as u8).collect(),
        keys: c["keys"].as_u64().unwrap_or(1) as u8,
        with_index: c["with_index"].as_bool().unwrap_or(true),
        thresholds: arr("thresholds").into_iter().map(|x| x as u16).collect(),
    }
}

fn run(args: vcore::Args) -> i32 {
    if let Some(p) = args.replay.as_deref() {
        let case = vcore::read_replay_case(p);
        let m = model_from_json(&case["config"]);
        return vcheck::replay_report("C14", vcore::seq_replay_case(&m, &case, parse_ev));
    }
    let tier = args.tier;
    let mut rep = Report::new("C14", tier, "model_checking");
    rep.rule = "BFS over mutation histories of the real LpgStore / GrafeoDB in four layers (structure, property+index+zone-map, adjacency thresholds, database); after every transition every accessor is compared with a dumb reference graph and with the other accessors; a state is distinct by its full public observation + ledger, non-trivial when at least one node is live".into();
    let base = Model { layer: "structure", backward: true, max_nodes: 3, max_edges: 3, label_sets: vec![0, 1, 2], values: vec![], keys: 1, with_index: false, thresholds: vec![] };
    let mut runs: Vec<(Model, usize)> = vec![];
    match tier {
        Tier::Quick => {
            runs.push((Model { max_nodes: 2, max_edges: 3, ..base.clone() }, 6));
            runs.push((Model { max_nodes: 3, max_edges: 2, label_sets: vec![1], ..base.clone() }, 6));
            runs.push((Model { backward: false, max_nodes: 2, max_edges: 2, label_sets: vec![1], ..base.clone() }, 5));
            runs.push((Model { layer: "property", max_nodes: 2, label_sets: vec![0], values: vec![0, 1, 2, 3, 4, 5, 6, 7], keys: 1, with_index: true, ..base.clone() }, 5));
            runs.push((Model { layer: "threshold", thresholds: vec![63, 64, 65, 129, 257], ..base.clone() }, 4));
            runs.push((Model { layer: "threshold", backward: false, thresholds: vec![64, 65, 257], ..base.clone() }, 3));
            runs.push((Model { layer: "database", max_nodes: 2, max_edges: 2, label_sets: vec![1], ..base.clone() }, 6));
        }
        Tier::Thorough => {
            runs.push((Model { max_nodes: 3, max_edges: 3, ..base.clone() }, 7));
            runs.push((Model { backward: false, max_nodes: 3, max_edges: 3, label_sets: vec![0, 1], ..base.clone() }, 6));
            runs.push((Model { layer: "property", max_nodes: 2, label_sets: vec![0], values: vec![0, 1, 2, 3, 4, 5, 6, 7, 8, 9], keys: 1, with_index: true, ..base.clone() }, 6));
            runs.push((Model { layer: "property", max_nodes: 2, label_sets: vec![0], values: vec![0, 1, 4, 6, 7], keys: 2, with_index: true, ..base.clone() }, 5));
            runs.push((Model { layer: "property", max_nodes: 3, label_sets: vec![0], values: vec![0, 1, 4], keys: 1, with_index: true, ..base.clone() }, 7));
            runs.push((Model { layer: "threshold", thresholds: vec![1, 63, 64, 65, 127, 128, 129, 257, 321], ..base.clone() }, 5));
            runs.push((Model { layer: "threshold", backward: false, thresholds: vec![63, 64, 65, 129, 257], ..base.clone() }, 4));
            runs.push((Model { layer: "database", max_nodes: 3, max_edges: 3, label_sets: vec![0, 1], ..base.clone() }, 6));
        }
    }
    let mut layers = vec![];
    for (m, depth) in runs {
        let before = (rep.states, rep.transitions);
        let t0 = rep.elapsed_s();
        let st = vcore::seq_bfs(&m, depth, 40_000_000, &mut rep);
        layers.push(json!({"config": m.config_json(), "depth_bound": depth, "depth_completed": st.depth_completed, "states": rep.states - before.0, "transitions": rep.transitions - before.1, "closed": st.closed, "wall_s": rep.elapsed_s() - t0}));
        eprintln!("layer {} backward={} depth {}: {} states, {} transitions, {:.1}s", m.layer, m.backward, depth, rep.states - before.0, rep.transitions - before.1, rep.elapsed_s() - t0);
    }
    rep.set("layers", json!(layers));
    rep.traces_validated = rep.transitions;
    rep.assumptions.push("LpgStore::delete_node is documented as non-cascading, so at store level it is only issued on nodes whose edges were detached first (delete_node_edges); GrafeoDB::delete_node is documented as cascading and is checked as such".into());
    rep.assumptions.push("pruning soundness uses same-variant comparisons only as definite matches; cross-type (Int vs Float) range matches are tolerated either way".into());
    rep.finish()
}
