//! C02 — commit and rollback are all-or-nothing (DESIGN.md §3/C02).
//! Same session-level explorer as C01 (vcheck::sess) with the four endings (commit, rollback, failed
//! commit through the public TransactionManager API, drop of the session) and the anomaly classes
//! that C02 talks about: a rolled-back / failed / dropped transaction's write still visible to
//! anyone through any access path, or a committed write missing for a later observer.
use serde_json::json;
use vcheck::sess;
use vcore::{Report, SeqModel, Tier};

fn main() {
    std::process::exit(run(vcheck::entry()));
}

fn run(args: vcore::Args) -> i32 {
    if let Some(p) = args.replay.as_deref() {
        let case = vcore::read_replay_case(p);
        let m = sess::model_from_json(&case["config"]);
        return vcheck::replay_report("C02", vcore::seq_replay_case(&m, &case, sess::parse_ev));
    }
    let tier = args.tier;
    let mut rep = Report::new("C02", tier, "model_checking");
    rep.rule = "BFS over histories of one mutating session (all twelve write kinds, up to 3-4 per transaction) ended by commit / rollback / failed commit / session drop, with an observer session opened before and re-opened after; after every transition every session runs the whole probe bundle; a mismatch is attributed to the single rolled-back or committed operation that explains it".into();
    let all_probes: Vec<usize> = (0..sess::PROBES.len()).collect();
    // edge-focused layer: parallel edges b->a created by statement and by the direct API (converging second hops of differing visibility)
    let edge_probes: Vec<usize> = ["label-scan", "expand", "two-hop", "two-hop-any", "get_edge", "neighbors-out", "neighbors-in"].iter().filter_map(|n| sess::PROBES.iter().position(|p| p == n)).collect();
    let edge_layer = |caps: Vec<usize>, depth: usize| (sess::Model { prop: "C02", sessions: 2, writes: vec![sess::W::CreateEdge, sess::W::CreateEdgeApi, sess::W::DeleteEdge], caps, writers: vec![0], levels: vec![0], probes: edge_probes.clone(), second_commit_first: false, endings: true }, depth);
    let configs: Vec<(sess::Model, usize)> = match tier {
        Tier::Quick => vec![
            (sess::Model { prop: "C02", sessions: 2, writes: sess::ALL_W.to_vec(), caps: vec![3, 2], writers: vec![0], levels: vec![0], probes: all_probes.clone(), second_commit_first: false, endings: true }, 4),
            (sess::Model { prop: "C02", sessions: 2, writes: vec![sess::W::CreateNode, sess::W::InsertTriple, sess::W::DeleteTriple, sess::W::InsertTriple0, sess::W::DeleteTriple1], caps: vec![5, 1], writers: vec![0], levels: vec![0], probes: all_probes.clone(), second_commit_first: true, endings: true }, 5),
            edge_layer(vec![5, 2], 6),
        ],
        Tier::Thorough => vec![
            (sess::Model { prop: "C02", sessions: 2, writes: sess::ALL_W.to_vec(), caps: vec![5, 2], writers: vec![0], levels: vec![0, 1], probes: all_probes.clone(), second_commit_first: false, endings: true }, 5),
            (sess::Model { prop: "C02", sessions: 3, writes: vec![sess::W::CreateNode, sess::W::SetProp, sess::W::DeleteNodeB, sess::W::InsertTriple, sess::W::DeleteTriple, sess::W::InsertTriple0, sess::W::DeleteTriple1], caps: vec![4, 3, 1], writers: vec![0, 1], levels: vec![0], probes: all_probes.clone(), second_commit_first: true, endings: true }, 5),
            edge_layer(vec![6, 3], 8),
        ],
    };
    let mut layers = vec![];
    for (m, depth) in configs {
        let before = (rep.states, rep.transitions);
        let t0 = rep.elapsed_s();
        let st = vcore::seq_bfs(&m, depth, tier.pick(400_000, 150_000), &mut rep);
        layers.push(json!({"layer": "session", "config": m.config_json(), "depth_bound": depth, "depth_completed": st.depth_completed, "states": rep.states - before.0, "transitions": rep.transitions - before.1, "wall_s": rep.elapsed_s() - t0}));
        eprintln!("session layer: depth {depth}: {} states {} transitions ({:.1}s)", rep.states - before.0, rep.transitions - before.1, rep.elapsed_s() - t0);
    }
    rep.set("layers", json!(layers));
    rep.traces_validated = rep.transitions;
    rep.assumptions.push("a failed commit is provoked through the public TransactionManager API (abort_all_active before commit, hook H5 hands out the manager)".into());
    rep.finish()
}
