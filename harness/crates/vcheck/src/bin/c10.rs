//! C10 — indexes, pruning, caching and execution strategy change speed, not answers (DESIGN.md §3/C10).
//!
//! Differential and model-free.  Part A (ENUM): every small graph x (every core-grammar query + a family of
//! hand-written predicate shapes aimed at partial index matches) x {GQL, Cypher} is answered by a plain
//! reference database (no index, factorized on, cold plan cache) and by every physical variant: index on
//! p / on p and s (created after or before loading, or created and dropped again), factorized execution off,
//! warm plan cache, stale zone maps (after a removal) and rebuilt zone maps.  All answers must agree.
//! Part B (SEQ): histories of data changes interleaved with index creation / removal on one long-lived
//! database whose plan cache stays warm, the same query texts re-executed after every step, against a
//! database rebuilt from scratch from the data operations alone.

use grafeo_common::types::{NodeId, Value};
use grafeo_engine::{Config, GrafeoDB};
use serde_json::json;
use vcheck::qmodel::*;
use vcore::{Report, Violation};

fn main() {
    std::process::exit(run(vcheck::entry()));
}

const VARIANTS: [&str; 9] = ["index-p", "index-p-s", "index-before-load", "index-dropped", "no-factorized", "warm-cache", "stale-zone-map", "rebuilt-zone-map", "index-p+no-factorized"];

fn build_variant(g: &QGraph, v: &str) -> GrafeoDB {
    let db = if v.contains("no-factorized") { GrafeoDB::with_config(Config::in_memory().without_factorized_execution()).expect("in-memory db") } else { GrafeoDB::new_in_memory() };
    if v == "index-before-load" {
        db.create_property_index("p");
        db.create_property_index("s");
    }
    load_into_offset(&db, g);
    if v == "stale-zone-map" || v == "rebuilt-zone-map" {
        // a value outside the graph's range widens the zone map; removing the node again leaves the summary stale
        // (created after the graph so that the graph's identifiers are the same as in the reference database)
        let extra = db.create_node_with_props(&["A"], [("p", Value::Int64(99)), ("s", Value::String("zz".into()))]);
        db.delete_node(extra);
    }
    match v {
        "index-p" | "index-p+no-factorized" => db.create_property_index("p"),
        "index-p-s" => {
            db.create_property_index("p");
            db.create_property_index("s");
        }
        "index-dropped" => {
            db.create_property_index("p");
            db.drop_property_index("p");
        }
        "rebuilt-zone-map" => db.store().rebuild_zone_maps(),
        _ => {}
    }
    db
}

/// Like qmodel::load_into, but tolerant of ids not starting at 0 (the stale-zone-map variants create and delete a node first).
fn load_into_offset(db: &GrafeoDB, g: &QGraph) -> IdMap {
    let mut ids = vec![];
    let mut eids = vec![];
    for n in &g.nodes {
        let labels: Vec<&str> = n.labels.iter().map(|s| s.as_str()).collect();
        ids.push(db.create_node_with_props(&labels, n.props.iter().map(|(k, v)| (k.as_str(), v.clone()))));
    }
    for e in &g.edges {
        eids.push(db.create_edge_with_props(ids[e.src], ids[e.dst], &e.etype, e.props.iter().map(|(k, v)| (k.as_str(), v.clone()))));
    }
    IdMap { nodes: ids, edges: eids }
}

/// Hand-written predicate shapes (DESIGN.md §3/C10): partial index matches and coercions.
fn shapes() -> Vec<(&'static str, &'static str)> {
    vec![
        ("eq-indexed", "MATCH (n) WHERE n.p = 1 RETURN n.p, n.s"),
        ("eq-indexed-label", "MATCH (n:A) WHERE n.p = 1 RETURN n.p, n.s"),
        ("eq-indexed-and-range", "MATCH (n) WHERE n.p = 1 AND n.s > 'a' RETURN n.p, n.s"),
        ("eq-indexed-and-ne", "MATCH (n) WHERE n.p = 1 AND n.s <> 'x' RETURN n.p, n.s"),
        ("eq-indexed-and-eq-other", "MATCH (n) WHERE n.p = 1 AND n.s = 'x' RETURN n.p, n.s"),
        ("eq-indexed-and-eq-same-key", "MATCH (n) WHERE n.p = 1 AND n.p = 2 RETURN n.p"),
        ("eq-indexed-and-not", "MATCH (n) WHERE n.p = 2 AND NOT n.s = 'x' RETURN n.p, n.s"),
        ("eq-indexed-or", "MATCH (n) WHERE n.p = 1 OR n.s = 'x' RETURN n.p, n.s"),
        ("eq-reversed-operands", "MATCH (n) WHERE 1 = n.p RETURN n.p, n.s"),
        ("eq-float-literal", "MATCH (n) WHERE n.p = 1.0 RETURN n.p"),
        ("eq-absent-property", "MATCH (n) WHERE n.zz = 1 RETURN n.p"),
        ("eq-string-indexed", "MATCH (n) WHERE n.s = 'x' RETURN n.p, n.s"),
        ("range-gt", "MATCH (n) WHERE n.p > 1 RETURN n.p"),
        ("range-ge-lt", "MATCH (n) WHERE n.p >= 1 AND n.p < 2 RETURN n.p"),
        ("range-float-bound", "MATCH (n) WHERE n.p > 0.5 RETURN n.p"),
        ("range-out-of-range", "MATCH (n) WHERE n.p > 50 RETURN n.p"),
        ("range-on-string", "MATCH (n) WHERE n.s >= 'x' RETURN n.s"),
        ("edge-variable-property", "MATCH (n)-[e:K]->(m) WHERE e.p = 1 RETURN n.p, m.p"),
        ("eq-on-target-of-hop", "MATCH (n)-[:K]->(m) WHERE m.p = 1 RETURN n.p, m.p"),
        ("eq-on-both-ends", "MATCH (n)-[:K]->(m) WHERE n.p = 1 AND m.p = 2 RETURN n.p, m.p"),
        ("two-hop-eq", "MATCH (a)-[:K]->(b)-[:K]->(c) WHERE a.p = 1 RETURN a.p, b.p, c.p"),
        ("two-hop-count", "MATCH (a)-[:K]->(b)-[:L]->(c) RETURN COUNT(a)"),
        ("inline-property-map", "MATCH (n {p: 1}) RETURN n.p, n.s"),
        ("inline-property-map-label", "MATCH (n:A {p: 1, s: 'x'}) RETURN n.p, n.s"),
        ("eq-count", "MATCH (n) WHERE n.p = 1 RETURN COUNT(n)"),
        ("eq-distinct-order", "MATCH (n) WHERE n.p = 1 RETURN DISTINCT n.s ORDER BY n.s"),
    ]
}

#[derive(Clone, Debug, PartialEq)]
enum Out {
    Rows(Vec<Vec<Value>>),
    Err(String),
    Panic(String),
}
fn exec(db: &GrafeoDB, lang: Lang, text: &str) -> Out {
    match vcore::catch(|| run_query(db, lang, text)) {
        Ok(Ok(r)) => Out::Rows(r),
        Ok(Err(e)) => Out::Err(e),
        Err(p) => Out::Panic(p),
    }
}

/// How do two answers to the same question differ? None = they agree (as far as the query determines the answer).
fn differ(a: &Out, b: &Out, ordered_total: bool, windowed_undetermined: bool) -> Option<(&'static str, String)> {
    match (a, b) {
        (Out::Rows(x), Out::Rows(y)) => {
            if windowed_undetermined {
                return if x.len() == y.len() { None } else { Some(("row-count-differs", format!("{} vs {} rows", x.len(), y.len()))) };
            }
            if answers_agree(x, y, ordered_total) {
                return None;
            }
            let (mx, my) = (multiset(&canon_rows(x)), multiset(&canon_rows(y)));
            let extra = my.iter().any(|(r, n)| mx.get(r).copied().unwrap_or(0) < *n);
            let missing = mx.iter().any(|(r, n)| my.get(r).copied().unwrap_or(0) < *n);
            let kind = match (extra, missing) {
                (true, false) => "extra-rows",
                (false, true) => "missing-rows",
                (true, true) => "rows-differ",
                (false, false) => "order-differs",
            };
            Some((kind, format!("reference {:?} vs variant {:?}", canon_rows(x), canon_rows(y))))
        }
        (Out::Err(_), Out::Err(_)) => None,
        (Out::Panic(p), _) | (_, Out::Panic(p)) => Some(("panic", p.clone())),
        (Out::Rows(_), Out::Err(e)) => Some(("error-vs-rows", format!("variant answered Err({e})"))),
        (Out::Err(e), Out::Rows(_)) => Some(("rows-vs-error", format!("reference answered Err({e})"))),
    }
}

fn feats_of(q: &Query) -> Vec<(String, String)> {
    let f = q.features();
    ["pattern", "where", "agg", "distinct", "order_by", "window"].iter().filter_map(|k| f.get(k).map(|v| (k.to_string(), v.clone()))).collect()
}

struct Case {
    lang: Lang,
    text: String,
    feats: Vec<(String, String)>,
    ordered: bool,
    q: Option<Query>,
}

fn part_a(rep: &mut Report, graphs: &[QGraph], queries: &[Query]) {
    let shapes = shapes();
    let results = vcore::par_map(graphs, vcore::cores(), |gi, g| {
        let mut cases: Vec<Case> = vec![];
        for q in queries {
            for lang in [Lang::Gql, Lang::Cypher] {
                if let Some(text) = render(q, lang) {
                    cases.push(Case { lang, text, feats: feats_of(q), ordered: q.order_by.is_some(), q: Some(q.clone()) });
                }
            }
        }
        for (name, text) in &shapes {
            for lang in [Lang::Gql, Lang::Cypher] {
                cases.push(Case { lang, text: text.to_string(), feats: vec![("shape".to_string(), name.to_string())], ordered: false, q: None });
            }
        }
        let reference = GrafeoDB::new_in_memory();
        let ids = load_into_offset(&reference, g);
        let variants: Vec<(&str, GrafeoDB)> = VARIANTS.iter().filter(|v| **v != "warm-cache").map(|v| (*v, build_variant(g, v))).collect();
        let mut viols = vec![];
        let mut evals = 0u64;
        let mut nontrivial = vec![];
        for (ci, c) in cases.iter().enumerate() {
            let base = exec(&reference, c.lang, &c.text);
            evals += 1;
            if matches!(&base, Out::Rows(r) if !r.is_empty()) {
                nontrivial.push(vcore::hash_of(&(gi, ci)));
            }
            let (total, windowed) = match &c.q {
                Some(q) => {
                    let r = eval(g, &ids, q, EvalOpts::default());
                    (r.total_order(), r.has_window())
                }
                None => (false, false),
            };
            let mut outs: Vec<(&str, Out)> = vec![("warm-cache", exec(&reference, c.lang, &c.text))];
            for (name, db) in &variants {
                outs.push((name, exec(db, c.lang, &c.text)));
            }
            evals += outs.len() as u64;
            for (name, o) in &outs {
                if let Some((kind, detail)) = differ(&base, o, c.ordered && total, windowed && !total) {
                    let mut f: Vec<(&str, &str)> = vec![("layer", "config"), ("variant", name), ("kind", kind)];
                    for (k, v) in &c.feats {
                        f.push((k, v));
                    }
                    viols.push(Violation::new(&f, json!({"engine": "ENUM/config", "graph": g.to_json(), "lang": c.lang.name(), "query": c.text, "variant": name}), format!("{} [{}] on variant {name}: {}", c.text, c.lang.name(), vcore::truncate(&detail, 300))));
                }
            }
        }
        (viols, evals, nontrivial, cases.len())
    });
    let mut ncases = 0;
    for (viols, evals, nontrivial, n) in results {
        rep.evaluations += evals;
        ncases += n;
        for h in nontrivial {
            rep.nontrivial_hash(h);
        }
        for v in viols {
            rep.violation(v);
        }
    }
    rep.set("part_a", json!({"graphs": graphs.len(), "grammar_queries": queries.len(), "shapes": shapes.len(), "cases": ncases, "variants": VARIANTS}));
}

// ---------------------------------------------------------------------------
// Part A2: min/max pruning against the same predicate in a form the pruning cannot see
// ---------------------------------------------------------------------------

const PVALS: [&str; 6] = ["1", "2", "3", "1.5", "2.5", "-"];
const PLITS: [&str; 6] = ["0", "1", "1.5", "2", "3", "4"];
const POPS: [&str; 6] = ["=", "<>", "<", "<=", ">", ">="];

fn pval(v: &str) -> Option<Value> {
    match v {
        "-" => None,
        x if x.contains('.') => x.parse::<f64>().ok().map(Value::Float64),
        x => x.parse::<i64>().ok().map(Value::Int64),
    }
}

/// A database whose nodes carry the values `vals` of property p, written in this order (the summary of a column is
/// maintained write by write), optionally followed by overwriting the first node's value with `overwrite`.
fn pruning_db(vals: &[&str], overwrite: Option<&str>) -> GrafeoDB {
    let db = GrafeoDB::new_in_memory();
    let mut first = None;
    for v in vals {
        let id = match pval(v) {
            Some(x) => db.create_node_with_props(&["A"], [("p", x)]),
            None => db.create_node_with_props(&["A"], [("s", Value::String("x".into()))]),
        };
        first.get_or_insert(id);
    }
    if let (Some(id), Some(Some(x))) = (first, overwrite.map(pval)) {
        db.set_node_property(id, "p", x);
    }
    db
}

fn pruning_judge(vals: &[&str], overwrite: Option<&str>) -> (Vec<Violation>, u64, bool) {
    let db = pruning_db(vals, overwrite);
    let mut viols = vec![];
    let mut evals = 0;
    let mut nonempty = false;
    let column = {
        let (i, f) = (vals.iter().chain(overwrite.iter()).any(|v| *v != "-" && !v.contains('.')), vals.iter().chain(overwrite.iter()).any(|v| v.contains('.')));
        if i && f { "mixed-int-float" } else if f { "floats" } else if i { "ints" } else { "absent" }
    };
    for op in POPS {
        for lit in PLITS {
            for (pat, pname) in [("MATCH (n)", "node"), ("MATCH (n:A)", "node-label")] {
                let prunable = format!("{pat} WHERE n.p {op} {lit} RETURN n.p");
                let twin = format!("{pat} WHERE n.p + 0 {op} {lit} RETURN n.p");
                let (a, b) = (exec(&db, Lang::Gql, &prunable), exec(&db, Lang::Gql, &twin));
                evals += 2;
                nonempty |= matches!(&b, Out::Rows(r) if !r.is_empty());
                if let Some((kind, detail)) = differ(&b, &a, false, false) {
                    viols.push(Violation::new(
                        &[("layer", "pruning"), ("kind", kind), ("op", op), ("literal", if lit.contains('.') { "float" } else { "int" }), ("column", column), ("pattern", pname), ("overwrite", if overwrite.is_some() { "yes" } else { "no" })],
                        json!({"engine": "ENUM/pruning", "values": vals, "overwrite": overwrite, "query": prunable, "twin": twin}),
                        format!("p written as {vals:?}{}: {prunable} vs {twin}: {}", overwrite.map(|o| format!(" then first := {o}")).unwrap_or_default(), vcore::truncate(&detail, 300)),
                    ));
                }
            }
        }
    }
    // two-sided ranges in both spellings (the planner folds them into one range lookup with inclusiveness flags)
    for hi_op in ["<", "<="] {
        for lo_op in [">", ">="] {
            for (lo, hi) in [("1", "2"), ("1", "3"), ("1.5", "2.5"), ("2", "3"), ("1", "2.5")] {
                for upper_first in [false, true] {
                    let (a, b) = (format!("n.p {lo_op} {lo}"), format!("n.p {hi_op} {hi}"));
                    let (ta, tb) = (format!("n.p + 0 {lo_op} {lo}"), format!("n.p + 0 {hi_op} {hi}"));
                    let (prunable, twin) = if upper_first { (format!("MATCH (n) WHERE {b} AND {a} RETURN n.p"), format!("MATCH (n) WHERE {tb} AND {ta} RETURN n.p")) } else { (format!("MATCH (n) WHERE {a} AND {b} RETURN n.p"), format!("MATCH (n) WHERE {ta} AND {tb} RETURN n.p")) };
                    let (x, y) = (exec(&db, Lang::Gql, &prunable), exec(&db, Lang::Gql, &twin));
                    evals += 2;
                    nonempty |= matches!(&y, Out::Rows(r) if !r.is_empty());
                    if let Some((kind, detail)) = differ(&y, &x, false, false) {
                        let ops = format!("{lo_op}..{hi_op}");
                        viols.push(Violation::new(
                            &[("layer", "pruning"), ("kind", kind), ("op", &ops), ("literal", if lo.contains('.') || hi.contains('.') { "float" } else { "int" }), ("column", column), ("pattern", if upper_first { "range-upper-first" } else { "range" }), ("overwrite", if overwrite.is_some() { "yes" } else { "no" })],
                            json!({"engine": "ENUM/pruning", "values": vals, "overwrite": overwrite, "query": prunable, "twin": twin}),
                            format!("p written as {vals:?}{}: {prunable} vs {twin}: {}", overwrite.map(|o| format!(" then first := {o}")).unwrap_or_default(), vcore::truncate(&detail, 300)),
                        ));
                    }
                }
            }
        }
    }
    (viols, evals, nonempty)
}

fn part_a2(rep: &mut Report, nodes: usize) {
    // every sequence of `nodes` values of p (order matters), alone and followed by every overwrite of the first node
    let seqs = vcore::sequences(PVALS.len(), nodes).into_iter().filter(|s| s.len() == nodes).collect::<Vec<_>>();
    let mut jobs: Vec<(Vec<&str>, Option<&str>)> = vec![];
    for s in &seqs {
        let vals: Vec<&str> = s.iter().map(|i| PVALS[*i]).collect();
        jobs.push((vals.clone(), None));
        for o in PVALS.iter().filter(|o| **o != "-") {
            jobs.push((vals.clone(), Some(o)));
        }
    }
    let results = vcore::par_map(&jobs, vcore::cores(), |_, (vals, ow)| pruning_judge(vals, *ow));
    for ((vals, ow), (viols, evals, nonempty)) in jobs.iter().zip(results) {
        rep.evaluations += evals;
        if nonempty {
            rep.nontrivial(&("pruning", vals, ow));
        }
        for v in viols {
            rep.violation(v);
        }
    }
    rep.set("part_a2", json!({"value_sequences": seqs.len(), "databases": jobs.len(), "values": PVALS, "literals": PLITS, "operators": POPS}));
}

// ---------------------------------------------------------------------------
// Part B: histories on one long-lived database
// ---------------------------------------------------------------------------

const LETTERS: [&str; 10] = ["create(A,p=1)", "create(B,p=2,s=x)", "set(n0,p,2)", "set(n0,p,1)", "remove(n0,p)", "delete(n0)", "create_index(p)", "drop_index(p)", "create_index(s)", "edge(n0->last)"];
const QUERIES: [&str; 6] = ["MATCH (n) WHERE n.p = 1 RETURN n.p, n.s", "MATCH (n:A) WHERE n.p = 2 RETURN n.p", "MATCH (n) WHERE n.p > 1 RETURN n.p", "MATCH (n) WHERE n.s = 'x' AND n.p = 2 RETURN n.p", "MATCH (n) RETURN COUNT(n)", "MATCH (a)-[:K]->(b) WHERE a.p = 1 RETURN b.p"];

fn apply_letter(db: &GrafeoDB, l: &str, with_index_ops: bool, n0: &mut Option<NodeId>, last: &mut Option<NodeId>) {
    match l {
        "create(A,p=1)" => {
            let id = db.create_node_with_props(&["A"], [("p", Value::Int64(1))]);
            n0.get_or_insert(id);
            *last = Some(id);
        }
        "create(B,p=2,s=x)" => {
            let id = db.create_node_with_props(&["B"], [("p", Value::Int64(2)), ("s", Value::String("x".into()))]);
            n0.get_or_insert(id);
            *last = Some(id);
        }
        "set(n0,p,2)" | "set(n0,p,1)" => {
            if let Some(n) = n0 {
                if db.get_node(*n).is_some() {
                    db.set_node_property(*n, "p", Value::Int64(if l.ends_with("2)") { 2 } else { 1 }));
                }
            }
        }
        "remove(n0,p)" => {
            if let Some(n) = n0 {
                if db.get_node(*n).is_some() {
                    db.remove_node_property(*n, "p");
                }
            }
        }
        "delete(n0)" => {
            if let Some(n) = n0 {
                db.delete_node(*n);
            }
        }
        "edge(n0->last)" => {
            if let (Some(a), Some(b)) = (*n0, *last) {
                if db.get_node(a).is_some() && db.get_node(b).is_some() {
                    db.create_edge(a, b, "K");
                }
            }
        }
        "create_index(p)" if with_index_ops => db.create_property_index("p"),
        "drop_index(p)" if with_index_ops => {
            db.drop_property_index("p");
        }
        "create_index(s)" if with_index_ops => db.create_property_index("s"),
        _ => {}
    }
}

fn part_b(rep: &mut Report, depth: usize) {
    let mut hists: Vec<Vec<usize>> = vec![];
    for d in 1..=depth {
        hists.extend(vcore::sequences(LETTERS.len(), d));
    }
    let results = vcore::par_map(&hists, vcore::cores(), |_, h| {
        let mut viols = vec![];
        let mut evals = 0u64;
        // subject: one long-lived database, index operations included, queries after every step (plan cache warm)
        let subject = GrafeoDB::new_in_memory();
        let (mut n0, mut last) = (None, None);
        let mut nonempty = false;
        for (i, l) in h.iter().enumerate() {
            apply_letter(&subject, LETTERS[*l], true, &mut n0, &mut last);
            // reference: rebuilt from the data operations alone, never queried before
            let reference = GrafeoDB::new_in_memory();
            let (mut r0, mut rl) = (None, None);
            for l2 in &h[..=i] {
                apply_letter(&reference, LETTERS[*l2], false, &mut r0, &mut rl);
            }
            for q in QUERIES {
                let a = exec(&reference, Lang::Gql, q);
                let b = exec(&subject, Lang::Gql, q);
                evals += 2;
                if matches!(&a, Out::Rows(r) if !r.is_empty() && r[0] != vec![Value::Int64(0)]) {
                    nonempty = true;
                }
                if let Some((kind, detail)) = differ(&a, &b, false, false) {
                    let indexed = h[..=i].iter().any(|x| LETTERS[*x].starts_with("create_index"));
                    let last_data = h[..=i].iter().rev().map(|x| LETTERS[*x]).find(|x| !x.contains("index")).unwrap_or("-");
                    viols.push(Violation::new(
                        &[("layer", "history"), ("kind", kind), ("query", q), ("index_op_in_history", if indexed { "yes" } else { "no" }), ("last_data_op", last_data)],
                        json!({"engine": "SEQ/config-history", "history": h[..=i].iter().map(|x| LETTERS[*x]).collect::<Vec<_>>(), "query": q}),
                        format!("after {:?}: {q}: {}", h[..=i].iter().map(|x| LETTERS[*x]).collect::<Vec<_>>(), vcore::truncate(&detail, 300)),
                    ));
                }
            }
        }
        (viols, evals, nonempty)
    });
    for (h, (viols, evals, nonempty)) in hists.iter().zip(results) {
        rep.evaluations += evals;
        if nonempty {
            rep.nontrivial(&("hist", h));
        }
        for v in viols {
            rep.violation(v);
        }
    }
    rep.set("part_b", json!({"histories": hists.len(), "depth": depth, "letters": LETTERS, "queries": QUERIES}));
    rep.sample(json!({"history": hists[hists.len() / 2].iter().map(|x| LETTERS[*x]).collect::<Vec<_>>()}));
}

fn run(args: vcore::Args) -> i32 {
    let tier = args.tier;
    if let Some(p) = args.replay.as_deref() {
        let case = vcore::read_replay_case(p);
        let mut viols = vec![];
        if case["engine"] == "ENUM/config" {
            let Some(g) = QGraph::from_json(&case["graph"]) else { vcore::machinery_failure("bad graph") };
            let lang = Lang::from_name(case["lang"].as_str().unwrap_or("gql")).unwrap_or(Lang::Gql);
            let text = case["query"].as_str().unwrap_or("");
            let variant = case["variant"].as_str().unwrap_or("");
            let reference = GrafeoDB::new_in_memory();
            load_into_offset(&reference, &g);
            let base = exec(&reference, lang, text);
            let o = if variant == "warm-cache" { exec(&reference, lang, text) } else { exec(&build_variant(&g, variant), lang, text) };
            if let Some((kind, detail)) = differ(&base, &o, false, false) {
                viols.push(Violation::new(&[("layer", "config"), ("variant", variant), ("kind", kind)], case.clone(), detail));
            }
        } else if case["engine"] == "ENUM/pruning" {
            let vals: Vec<&str> = case["values"].as_array().map(|a| a.iter().filter_map(|x| x.as_str()).collect()).unwrap_or_default();
            let want = case["query"].as_str().unwrap_or("").to_string();
            let (v, _, _) = pruning_judge(&vals, case["overwrite"].as_str());
            viols.extend(v.into_iter().filter(|x| x.case["query"].as_str() == Some(want.as_str())));
        } else {
            let hist: Vec<&str> = case["history"].as_array().map(|a| a.iter().filter_map(|x| x.as_str()).collect()).unwrap_or_default();
            let q = case["query"].as_str().unwrap_or(QUERIES[0]);
            let subject = GrafeoDB::new_in_memory();
            let reference = GrafeoDB::new_in_memory();
            let (mut n0, mut last, mut r0, mut rl) = (None, None, None, None);
            for l in &hist {
                apply_letter(&subject, l, true, &mut n0, &mut last);
                apply_letter(&reference, l, false, &mut r0, &mut rl);
                // keep the subject's plan cache warm exactly as the exploration did
                for qq in QUERIES {
                    let _ = exec(&subject, Lang::Gql, qq);
                }
            }
            if let Some((kind, detail)) = differ(&exec(&reference, Lang::Gql, q), &exec(&subject, Lang::Gql, q), false, false) {
                viols.push(Violation::new(&[("layer", "history"), ("kind", kind), ("query", q)], case.clone(), detail));
            }
        }
        return vcheck::replay_report("C10", viols);
    }
    let mut rep = Report::new("C10", tier, "exploration");
    let kinds = if tier == vcore::Tier::Quick { GraphSpace::core_node_kinds().into_iter().skip(1).take(4).collect() } else { GraphSpace::core_node_kinds() };
    let space = GraphSpace { max_nodes: 2, max_edges: tier.pick(1, 2), node_kinds: kinds, edge_kinds: GraphSpace::full_edge_kinds() };
    let (graphs, _) = space.enumerate();
    let queries = all_queries(tier.pick(2, 3));
    rep.rule = format!("part A: every graph of {:?} x (core grammar up to weight {} + 26 predicate shapes) x {{GQL, Cypher}} x 9 physical variants against the plain reference database; part A2: every sequence of 3 (quick) / 4 (thorough) writes of p from {{1, 2, 3, 1.5, 2.5, absent}} (+ every overwrite of the first) x 6 comparison operators x 6 literals x 2 patterns (+ two-sided ranges, both spellings, 5 bound pairs), the prunable predicate `n.p op lit` against its twin `n.p + 0 op lit` that min/max pruning cannot see; part B: every history up to depth {} over 10 letters (data changes, index create/drop) on one long-lived database, 6 query texts re-executed after every step, against a database rebuilt from the data operations alone; distinct non-trivial = cases / histories with a non-empty answer", space.to_json(), tier.pick(2, 3), tier.pick(4, 5));
    part_a(&mut rep, &graphs, &queries);
    eprintln!("part A: {:.1}s", rep.elapsed_s());
    part_a2(&mut rep, tier.pick(3, 4));
    eprintln!("part A2: {:.1}s", rep.elapsed_s());
    part_b(&mut rep, tier.pick(4, 5));
    eprintln!("part B done: {:.1}s", rep.elapsed_s());
    rep.assumptions.push("where a query has SKIP/LIMIT without a total order only the row count is compared".into());
    rep.finish()
}
