//! C13 — triple store behaves as a set; SPARQL answers equal evaluation over it (DESIGN.md §3/C13).
use vcheck::rdfstore;
use vcore::{Report, Tier};

fn main() {
    std::process::exit(run(vcheck::entry()));
}

fn run(args: vcore::Args) -> i32 {
    let (tier, replay) = (args.tier, args.replay.as_deref());
    use serde_json::json;
    if let Some(p) = replay {
        let case = vcore::read_replay_case(p);
        if case["engine"] == "SEQ/rdfstore" {
            let m = rdfstore::model_from_config(&case["config"]);
            return vcheck::replay_report("C13", vcore::seq_replay_case(&m, &case, rdfstore::parse_ev));
        }
        if case["engine"] == "ENUM/sparql" {
            return vcheck::replay_report("C13", vcheck::sparql::replay_case(&case));
        }
        vcore::machinery_failure("unknown engine in replay case");
    }
    let mut rep = Report::new("C13", tier, "model_checking");
    rep.rule = "store layer: BFS to closure over insert/remove/clear/tx histories of the real RdfStore over a small colliding triple universe, both object-index settings; after every transition all 8 pattern shapes x all term choices and every other accessor are compared with a BTreeSet; a state is distinct by (sorted triple listing, pending buffers) and non-trivial when the set is non-empty".into();
    let mut layers = vec![];
    for index_objects in [true, false] {
        let configs: Vec<rdfstore::Model> = match tier {
            Tier::Quick => vec![rdfstore::Model { universe: rdfstore::UNIVERSE_Q.to_vec(), index_objects, txs: 1, max_pending: 2 }],
            Tier::Thorough => vec![
                rdfstore::Model { universe: rdfstore::UNIVERSE_T.to_vec(), index_objects, txs: 1, max_pending: 2 },
                rdfstore::Model { universe: rdfstore::UNIVERSE_Q.to_vec(), index_objects, txs: 2, max_pending: 2 },
                rdfstore::Model { universe: rdfstore::UNIVERSE_Q[..5].to_vec(), index_objects, txs: 1, max_pending: 3 },
            ],
        };
        for m in configs {
            let before = (rep.states, rep.transitions);
            let st = vcore::seq_bfs(&m, 64, 30_000_000, &mut rep);
            layers.push(json!({"config": vcore::SeqModel::config_json(&m), "states": rep.states - before.0, "transitions": rep.transitions - before.1, "depth_completed": st.depth_completed, "closed": st.closed}));
            if !st.closed {
                rep.exhaustive = false;
            }
        }
    }
    rep.set("store_layers", json!(layers));
    // SPARQL layer (engine ENUM): all 64 subsets of the universe x the core-grammar query family
    let t0 = rep.elapsed_s();
    vcheck::sparql::run_layer(&mut rep, tier == Tier::Thorough);
    eprintln!("sparql layer: {:.1}s", rep.elapsed_s() - t0);
    rep.traces_validated = rep.transitions;
    rep.finish()
}
