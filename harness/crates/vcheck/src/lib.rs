//! Shared checker modules (each property has its own binary under src/bin/).
pub mod qmodel;
pub mod rdfstore;
pub mod sess;
pub mod sparql;
pub mod mvccchain;
pub mod txmgr;

pub fn replay_report(prop: &str, viols: Vec<vcore::Violation>) -> i32 {
    if viols.is_empty() {
        println!("REPLAY property={prop}: no violation reproduced");
        return 0;
    }
    for v in &viols {
        println!("REPLAY property={prop}: reproduced sig=[{}] :: {}", v.sig_string(), v.detail);
    }
    1
}

/// Common entry: parse `[--tier quick|thorough] [--replay file] [--merge partial]`.
pub fn entry() -> vcore::Args {
    let argv: Vec<String> = std::env::args().skip(1).collect();
    vcore::quiet_panics();
    vcore::parse_args(&argv)
}
