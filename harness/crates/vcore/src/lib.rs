//! vcore: shared plumbing for every check — run context, evidence writer,
//! findings ledger (causal matchers), replay artefacts, a deterministic
//! parallel map, and small enumeration helpers.
//!
//! Exit-code contract (see DESIGN.md §1): 0 = held (possibly KNOWN-FINDING
//! lines), 1 = unlisted violation (VIOLATION line), 2 = machinery failure.

use serde_json::{Map, Value, json};
use std::collections::{BTreeMap, BTreeSet};
use std::hash::{Hash, Hasher};
use std::path::{Path, PathBuf};
use std::sync::atomic::{AtomicUsize, Ordering};
use std::time::Instant;

/// Root of the verification tree (overridable for mutation runs on scratch copies).
pub fn verif_root() -> PathBuf {
    PathBuf::from(std::env::var("VERIF_ROOT").unwrap_or_else(|_| "/verif".to_string()))
}

#[derive(Clone, Copy, PartialEq, Eq, Debug)]
pub enum Tier {
    Quick,
    Thorough,
}
impl Tier {
    pub fn as_str(self) -> &'static str {
        match self {
            Tier::Quick => "quick",
            Tier::Thorough => "thorough",
        }
    }
    pub fn pick<T>(self, q: T, t: T) -> T {
        match self {
            Tier::Quick => q,
            Tier::Thorough => t,
        }
    }
}

/// One raw violation as produced by an oracle: a *signature* (flat object of
/// string fields naming the mechanism) and the concrete case that exhibits it.
#[derive(Clone, Debug)]
pub struct Violation {
    pub sig: BTreeMap<String, String>,
    pub case: Value,
    pub detail: String,
}

impl Violation {
    pub fn new(fields: &[(&str, &str)], case: Value, detail: impl Into<String>) -> Self {
        let mut sig = BTreeMap::new();
        for (k, v) in fields {
            sig.insert((*k).to_string(), (*v).to_string());
        }
        Violation { sig, case, detail: detail.into() }
    }
    pub fn sig_string(&self) -> String {
        self.sig.iter().map(|(k, v)| format!("{k}={v}")).collect::<Vec<_>>().join(",")
    }
}

#[derive(Clone, Debug)]
struct Finding {
    id: String,
    property: String,
    status: String, // "known" | "fixed"
    title: String,
    matcher: Map<String, Value>,
}

fn load_findings(prop: &str) -> Vec<Finding> {
    let p = verif_root().join("findings/known_findings.json");
    let Ok(txt) = std::fs::read_to_string(&p) else { return vec![] };
    let v: Value = match serde_json::from_str(&txt) {
        Ok(v) => v,
        Err(e) => machinery_failure(&format!("known_findings.json unparsable: {e}")),
    };
    let mut out = vec![];
    for f in v.get("findings").and_then(|x| x.as_array()).cloned().unwrap_or_default() {
        let g = |k: &str| f.get(k).and_then(|x| x.as_str()).unwrap_or("").to_string();
        if g("property") != prop {
            continue;
        }
        out.push(Finding {
            id: g("id"),
            property: g("property"),
            status: g("status"),
            title: g("title"),
            matcher: f.get("matcher").and_then(|m| m.as_object()).cloned().unwrap_or_default(),
        });
    }
    out
}

fn matches(m: &Map<String, Value>, sig: &BTreeMap<String, String>) -> bool {
    if m.is_empty() {
        return false; // an empty matcher matches nothing: no blanket suppression
    }
    for (k, want) in m {
        let Some(have) = sig.get(k) else { return false };
        let ok = match want {
            Value::String(s) => s == have,
            Value::Array(a) => a.iter().any(|x| x.as_str() == Some(have.as_str())),
            _ => false,
        };
        if !ok {
            return false;
        }
    }
    true
}

pub fn machinery_failure(msg: &str) -> ! {
    eprintln!("MACHINERY-FAILURE: {msg}");
    std::process::exit(2);
}

/// Accumulates coverage counters and violations for one check run.
pub struct Report {
    pub property: String,
    pub tier: Tier,
    pub seed: u64,
    pub level: String,
    start: Instant,
    pub evaluations: u64,
    pub states: u64,
    pub transitions: u64,
    pub traces_validated: u64,
    pub exhaustive: bool,
    pub rule: String,
    distinct: BTreeSet<u64>,
    pub samples: Vec<Value>,
    pub extra: Map<String, Value>,
    pub assumptions: Vec<String>,
    pub violations: Vec<Violation>,
    pub max_samples: usize,
    /// occurrences per signature; only the first `MAX_STORED_PER_SIG` violation objects of a signature are kept
    viol_counts: BTreeMap<String, u64>,
}

const MAX_STORED_PER_SIG: u64 = 8;

pub fn hash_of<T: Hash + ?Sized>(t: &T) -> u64 {
    // FNV-1a based deterministic hasher (std's DefaultHasher::new() is also
    // deterministic, but being explicit keeps evidence reproducible).
    struct Fnv(u64);
    impl Hasher for Fnv {
        fn finish(&self) -> u64 {
            self.0
        }
        fn write(&mut self, bytes: &[u8]) {
            for b in bytes {
                self.0 ^= *b as u64;
                self.0 = self.0.wrapping_mul(0x100000001b3);
            }
        }
    }
    let mut h = Fnv(0xcbf29ce484222325);
    t.hash(&mut h);
    h.finish()
}

impl Report {
    pub fn new(property: &str, tier: Tier, level: &str) -> Self {
        let seed = std::env::var("VERIF_SEED").ok().and_then(|s| s.parse().ok()).unwrap_or(0);
        Report {
            property: property.to_string(),
            tier,
            seed,
            level: level.to_string(),
            start: Instant::now(),
            evaluations: 0,
            states: 0,
            transitions: 0,
            traces_validated: 0,
            exhaustive: true,
            rule: String::new(),
            distinct: BTreeSet::new(),
            samples: vec![],
            extra: Map::new(),
            assumptions: vec![],
            violations: vec![],
            max_samples: 6,
            viol_counts: BTreeMap::new(),
        }
    }
    pub fn elapsed_s(&self) -> f64 {
        self.start.elapsed().as_secs_f64()
    }
    /// Record a distinct non-trivial case by hash.
    pub fn nontrivial<T: Hash + ?Sized>(&mut self, t: &T) {
        self.distinct.insert(hash_of(t));
    }
    pub fn nontrivial_hash(&mut self, h: u64) {
        self.distinct.insert(h);
    }
    pub fn distinct_count(&self) -> usize {
        self.distinct.len()
    }
    pub fn sample(&mut self, v: Value) {
        if self.samples.len() < self.max_samples {
            self.samples.push(v);
        }
    }
    pub fn violation(&mut self, v: Violation) {
        let c = self.viol_counts.entry(v.sig_string()).or_insert(0);
        *c += 1;
        if *c <= MAX_STORED_PER_SIG {
            self.violations.push(v);
        }
    }
    /// Total number of violations reported so far (stored or only counted).
    pub fn violation_total(&self) -> u64 {
        self.viol_counts.values().sum()
    }
    pub fn set(&mut self, k: &str, v: Value) {
        self.extra.insert(k.to_string(), v);
    }
    pub fn add(&mut self, k: &str, n: u64) {
        let cur = self.extra.get(k).and_then(|x| x.as_u64()).unwrap_or(0);
        self.extra.insert(k.to_string(), json!(cur + n));
    }
    /// Merge a sub-report (from a parallel shard or a sub-layer).
    pub fn merge(&mut self, o: Report) {
        self.evaluations += o.evaluations;
        self.states += o.states;
        self.transitions += o.transitions;
        self.traces_validated += o.traces_validated;
        self.exhaustive &= o.exhaustive;
        self.distinct.extend(o.distinct);
        for s in o.samples {
            self.sample(s);
        }
        for (k, v) in o.extra {
            match (self.extra.get(&k).and_then(|x| x.as_u64()), v.as_u64()) {
                (Some(a), Some(b)) => {
                    self.extra.insert(k, json!(a + b));
                }
                _ => {
                    self.extra.insert(k, v);
                }
            }
        }
        for (k, n) in o.viol_counts {
            *self.viol_counts.entry(k).or_insert(0) += n;
        }
        for v in o.violations {
            // stored objects stay capped per signature
            let have = self.violations.iter().filter(|x| x.sig == v.sig).count() as u64;
            if have < MAX_STORED_PER_SIG {
                self.violations.push(v);
            }
        }
    }

    /// Serialise counters and violations so that another engine's process can merge them.
    pub fn write_partial(&self, path: &Path) {
        let v = json!({
            "property": self.property,
            "evaluations": self.evaluations, "states": self.states, "transitions": self.transitions,
            "traces_validated": self.traces_validated, "exhaustive": self.exhaustive,
            "distinct": self.distinct.iter().collect::<Vec<_>>(),
            "samples": self.samples, "extra": self.extra, "assumptions": self.assumptions, "viol_counts": self.viol_counts,
            "violations": self.violations.iter().map(|v| json!({"sig": v.sig, "case": v.case, "detail": v.detail})).collect::<Vec<_>>(),
        });
        if let Some(d) = path.parent() {
            let _ = std::fs::create_dir_all(d);
        }
        std::fs::write(path, serde_json::to_string(&v).unwrap()).unwrap_or_else(|e| machinery_failure(&format!("write partial: {e}")));
    }
    /// Merge a partial written by `write_partial` (extra keys are namespaced under `prefix`).
    pub fn merge_partial(&mut self, path: &Path, prefix: &str) {
        let txt = std::fs::read_to_string(path).unwrap_or_else(|e| machinery_failure(&format!("read partial {path:?}: {e}")));
        let v: Value = serde_json::from_str(&txt).unwrap_or_else(|e| machinery_failure(&format!("partial json: {e}")));
        let n = |k: &str| v[k].as_u64().unwrap_or(0);
        self.evaluations += n("evaluations");
        self.states += n("states");
        self.transitions += n("transitions");
        self.traces_validated += n("traces_validated");
        self.exhaustive &= v["exhaustive"].as_bool().unwrap_or(false);
        for d in v["distinct"].as_array().cloned().unwrap_or_default() {
            if let Some(x) = d.as_u64() {
                self.distinct.insert(x);
            }
        }
        for s in v["samples"].as_array().cloned().unwrap_or_default() {
            self.samples.push(s);
        }
        if let Some(m) = v["extra"].as_object() {
            self.extra.insert(prefix.to_string(), Value::Object(m.clone()));
        }
        for a in v["assumptions"].as_array().cloned().unwrap_or_default() {
            if let Some(a) = a.as_str() {
                self.assumptions.push(a.to_string());
            }
        }
        for x in v["violations"].as_array().cloned().unwrap_or_default() {
            let mut sig = BTreeMap::new();
            if let Some(m) = x["sig"].as_object() {
                for (k, val) in m {
                    sig.insert(k.clone(), val.as_str().unwrap_or("").to_string());
                }
            }
            self.violations.push(Violation { sig, case: x["case"].clone(), detail: x["detail"].as_str().unwrap_or("").to_string() });
        }
    }

    /// Merge a partial written by a shard of the SAME engine (a child process that ran a slice of the work list):
    /// counters add up, array-valued extras are concatenated, violation counts are kept per signature.
    pub fn merge_shard(&mut self, path: &Path) {
        let txt = std::fs::read_to_string(path).unwrap_or_else(|e| machinery_failure(&format!("read shard {path:?}: {e}")));
        let v: Value = serde_json::from_str(&txt).unwrap_or_else(|e| machinery_failure(&format!("shard json: {e}")));
        let n = |k: &str| v[k].as_u64().unwrap_or(0);
        self.evaluations += n("evaluations");
        self.states += n("states");
        self.transitions += n("transitions");
        self.traces_validated += n("traces_validated");
        self.exhaustive &= v["exhaustive"].as_bool().unwrap_or(false);
        for d in v["distinct"].as_array().cloned().unwrap_or_default() {
            if let Some(x) = d.as_u64() {
                self.distinct.insert(x);
            }
        }
        for s in v["samples"].as_array().cloned().unwrap_or_default() {
            self.sample(s);
        }
        if let Some(m) = v["extra"].as_object() {
            for (k, val) in m {
                match (self.extra.get(k).cloned(), val) {
                    (Some(Value::Array(mut a)), Value::Array(b)) => {
                        a.extend(b.iter().cloned());
                        self.extra.insert(k.clone(), Value::Array(a));
                    }
                    (Some(a), b) if a.is_u64() && b.is_u64() => {
                        self.extra.insert(k.clone(), json!(a.as_u64().unwrap_or(0) + b.as_u64().unwrap_or(0)));
                    }
                    (_, b) => {
                        self.extra.insert(k.clone(), b.clone());
                    }
                }
            }
        }
        let counts: BTreeMap<String, u64> = v["viol_counts"].as_object().map(|m| m.iter().map(|(k, x)| (k.clone(), x.as_u64().unwrap_or(1))).collect()).unwrap_or_default();
        for (k, c) in &counts {
            *self.viol_counts.entry(k.clone()).or_insert(0) += c;
        }
        for x in v["violations"].as_array().cloned().unwrap_or_default() {
            let mut sig = BTreeMap::new();
            if let Some(m) = x["sig"].as_object() {
                for (k, val) in m {
                    sig.insert(k.clone(), val.as_str().unwrap_or("").to_string());
                }
            }
            let viol = Violation { sig, case: x["case"].clone(), detail: x["detail"].as_str().unwrap_or("").to_string() };
            if !counts.contains_key(&viol.sig_string()) {
                *self.viol_counts.entry(viol.sig_string()).or_insert(0) += 1;
            }
            let have = self.violations.iter().filter(|y| y.sig == viol.sig).count() as u64;
            if have < MAX_STORED_PER_SIG {
                self.violations.push(viol);
            }
        }
    }

    /// Classify violations against the ledger, write replay files, write
    /// evidence, print the verdict lines and return the process exit code.
    pub fn finish(mut self) -> i32 {
        let findings = load_findings(&self.property);
        let mut known_hits: BTreeMap<String, (u64, String)> = BTreeMap::new();
        let mut unlisted: BTreeMap<String, (u64, Violation)> = BTreeMap::new();
        let counts = std::mem::take(&mut self.viol_counts);
        for v in std::mem::take(&mut self.violations) {
            let mut hit = None;
            for f in &findings {
                if f.status == "known" && matches(&f.matcher, &v.sig) {
                    hit = Some(f);
                    break;
                }
            }
            match hit {
                Some(f) => {
                    let e = known_hits.entry(f.id.clone()).or_insert((0, f.title.clone()));
                    e.0 += 1;
                }
                None => {
                    let key = v.sig_string();
                    let total = counts.get(&key).copied().unwrap_or(1);
                    let e = unlisted.entry(key).or_insert((0, v.clone()));
                    e.0 = total.max(e.0 + 1);
                }
            }
        }
        for f in &findings {
            let _ = &f.property;
            if f.status == "known" && !known_hits.contains_key(&f.id) {
                println!("INFO: listed finding {} did not reproduce in this run ({} tier)", f.id, self.tier.as_str());
            }
        }
        let mut replay_paths = vec![];
        let dir = verif_root().join("replays").join(&self.property);
        if !unlisted.is_empty() {
            let _ = std::fs::create_dir_all(&dir);
        }
        for (sigs, (n, v)) in &unlisted {
            let h = hash_of(&(sigs, v.case.to_string()));
            let path = dir.join(format!("{:016x}.json", h));
            let body = json!({
                "property": self.property,
                "signature": v.sig,
                "occurrences_in_run": n,
                "detail": v.detail,
                "case": v.case,
            });
            if let Err(e) = std::fs::write(&path, serde_json::to_string_pretty(&body).unwrap()) {
                machinery_failure(&format!("cannot write replay {path:?}: {e}"));
            }
            replay_paths.push((sigs.clone(), *n, path, v.detail.clone()));
        }
        let nviol: u64 = unlisted.values().map(|x| x.0).sum();
        let known_total: u64 = known_hits.values().map(|x| x.0).sum();

        // evidence
        let mut cov = Map::new();
        cov.insert("evaluations".into(), json!(self.evaluations));
        cov.insert("distinct_nontrivial".into(), json!(self.distinct.len()));
        cov.insert("rule".into(), json!(self.rule));
        cov.insert("samples".into(), Value::Array(self.samples.clone()));
        cov.insert("exhaustive".into(), json!(self.exhaustive));
        if self.level == "model_checking" {
            cov.insert("states".into(), json!(self.states));
            cov.insert("transitions".into(), json!(self.transitions));
            cov.insert("traces_validated_against_impl".into(), json!(self.traces_validated));
        }
        cov.insert(
            "known_findings_hit".into(),
            Value::Object(known_hits.iter().map(|(k, v)| (k.clone(), json!(v.0))).collect()),
        );
        for (k, v) in &self.extra {
            cov.insert(k.clone(), v.clone());
        }
        let ev = json!({
            "property_id": self.property,
            "tier": self.tier.as_str(),
            "seed": self.seed,
            "level": self.level,
            "coverage": Value::Object(cov),
            "assumptions": self.assumptions,
            "wall_s": self.elapsed_s(),
            "violations": nviol,
            "known_finding_cases": known_total,
        });
        let evdir = verif_root().join("evidence");
        let _ = std::fs::create_dir_all(&evdir);
        let evpath = evdir.join(format!("{}.json", self.property));
        if let Err(e) = std::fs::write(&evpath, serde_json::to_string_pretty(&ev).unwrap()) {
            machinery_failure(&format!("cannot write evidence: {e}"));
        }

        println!(
            "SUMMARY property={} tier={} evaluations={} states={} transitions={} distinct_nontrivial={} exhaustive={} wall_s={:.1}",
            self.property,
            self.tier.as_str(),
            self.evaluations,
            self.states,
            self.transitions,
            self.distinct.len(),
            self.exhaustive,
            self.elapsed_s()
        );
        for (id, (n, title)) in &known_hits {
            println!("KNOWN-FINDING: property={} {} {} ({} cases)", self.property, id, title, n);
        }
        if replay_paths.is_empty() {
            return 0;
        }
        for (sigs, n, path, detail) in replay_paths.iter().take(40) {
            println!("VIOLATION property={} replay={} sig=[{}] n={} :: {}", self.property, path.display(), sigs, n, truncate(detail, 300));
        }
        if replay_paths.len() > 40 {
            println!("... {} more distinct violation signatures (replay files written)", replay_paths.len() - 40);
        }
        1
    }
}

pub fn truncate(s: &str, n: usize) -> String {
    if s.len() <= n {
        s.to_string()
    } else {
        let mut e = n;
        while !s.is_char_boundary(e) {
            e -= 1;
        }
        format!("{}…", &s[..e])
    }
}

/// Deterministic parallel map: `items` are processed by `workers` threads that
/// pull indexes from a shared counter; results come back in input order, so the
/// outcome does not depend on scheduling.
pub fn par_map<I: Sync, O: Send, F: Fn(usize, &I) -> O + Sync>(items: &[I], workers: usize, f: F) -> Vec<O> {
    let n = items.len();
    let next = AtomicUsize::new(0);
    let workers = workers.max(1).min(n.max(1));
    let mut slots: Vec<Option<O>> = (0..n).map(|_| None).collect();
    let slots_ptr = std::sync::Mutex::new(&mut slots);
    std::thread::scope(|s| {
        for _ in 0..workers {
            s.spawn(|| {
                let mut local: Vec<(usize, O)> = vec![];
                loop {
                    let i = next.fetch_add(1, Ordering::Relaxed);
                    if i >= n {
                        break;
                    }
                    local.push((i, f(i, &items[i])));
                    if local.len() >= 64 {
                        let mut g = slots_ptr.lock().unwrap();
                        for (i, o) in local.drain(..) {
                            g[i] = Some(o);
                        }
                    }
                }
                let mut g = slots_ptr.lock().unwrap();
                for (i, o) in local.drain(..) {
                    g[i] = Some(o);
                }
            });
        }
    });
    slots.into_iter().map(|o| o.expect("par_map slot")).collect()
}

pub fn cores() -> usize {
    std::env::var("VERIF_JOBS").ok().and_then(|s| s.parse().ok()).unwrap_or_else(|| std::thread::available_parallelism().map(|n| n.get()).unwrap_or(4))
}

/// All sequences of length exactly `len` over `0..k`, in lexicographic order.
pub fn sequences(k: usize, len: usize) -> Vec<Vec<usize>> {
    let mut out = vec![vec![]];
    for _ in 0..len {
        let mut next = Vec::with_capacity(out.len() * k);
        for s in &out {
            for a in 0..k {
                let mut t = s.clone();
                t.push(a);
                next.push(t);
            }
        }
        out = next;
    }
    out
}

/// Run `f` catching panics; returns Err(message) on panic.
pub fn catch<T>(f: impl FnOnce() -> T) -> Result<T, String> {
    match std::panic::catch_unwind(std::panic::AssertUnwindSafe(f)) {
        Ok(v) => Ok(v),
        Err(e) => Err(if let Some(s) = e.downcast_ref::<&str>() {
            s.to_string()
        } else if let Some(s) = e.downcast_ref::<String>() {
            s.clone()
        } else {
            "panic (non-string payload)".into()
        }),
    }
}

/// Silence the default panic printer (we catch and classify panics ourselves).
pub fn quiet_panics() {
    if std::env::var("VERIF_LOUD").is_ok() {
        return;
    }
    std::panic::set_hook(Box::new(|_| {}));
}

pub fn scratch_dir(tag: &str) -> PathBuf {
    let p = verif_root().join("target/scratch").join(format!("{}-{}", tag, std::process::id()));
    let _ = std::fs::remove_dir_all(&p);
    std::fs::create_dir_all(&p).unwrap_or_else(|e| machinery_failure(&format!("scratch dir: {e}")));
    p
}

pub struct Args {
    pub tier: Tier,
    pub replay: Option<PathBuf>,
    pub merge: Vec<PathBuf>,
    pub rest: Vec<String>,
}
pub fn parse_args(args: &[String]) -> Args {
    let mut tier = match std::env::var("VERIF_TIER").as_deref() {
        Ok("thorough") => Tier::Thorough,
        _ => Tier::Quick,
    };
    let mut replay = None;
    let mut merge = vec![];
    let mut rest = vec![];
    let mut i = 0;
    while i < args.len() {
        match args[i].as_str() {
            "--tier" => {
                i += 1;
                tier = match args.get(i).map(|s| s.as_str()) {
                    Some("quick") => Tier::Quick,
                    Some("thorough") => Tier::Thorough,
                    o => machinery_failure(&format!("bad tier {o:?}")),
                };
            }
            "--replay" => {
                i += 1;
                replay = Some(PathBuf::from(args.get(i).cloned().unwrap_or_else(|| machinery_failure("--replay needs a path"))));
            }
            "--merge" => {
                i += 1;
                merge.push(PathBuf::from(args.get(i).cloned().unwrap_or_else(|| machinery_failure("--merge needs a path"))));
            }
            o => rest.push(o.to_string()),
        }
        i += 1;
    }
    Args { tier, replay, merge, rest }
}

pub fn read_replay_case(p: &Path) -> Value {
    let txt = std::fs::read_to_string(p).unwrap_or_else(|e| machinery_failure(&format!("replay file: {e}")));
    let v: Value = serde_json::from_str(&txt).unwrap_or_else(|e| machinery_failure(&format!("replay json: {e}")));
    v.get("case").cloned().unwrap_or(v)
}

// ---------------------------------------------------------------------------
// Engine SEQ: explicit-state BFS over event histories of a real system.
// ---------------------------------------------------------------------------

/// A system explored by history replay.  `Sys` bundles the live real object(s)
/// and the harness-side reference model; it is rebuilt from scratch for every
/// history (live objects cannot be cloned).
pub trait SeqModel: Sync {
    type Ev: Clone + Send + Sync;
    type Sys;
    fn init(&self) -> Self::Sys;
    /// Events enabled in the state reached by `hist` (small finite menu, simplest first).
    fn enabled(&self, sys: &Self::Sys, hist: &[Self::Ev]) -> Vec<Self::Ev>;
    /// Apply one event to the real object and to the reference model.  When
    /// `check` is set, evaluate the oracle on the resulting state and push violations.
    fn apply(&self, sys: &mut Self::Sys, ev: &Self::Ev, check: bool, out: &mut Vec<(Vec<(String, String)>, String)>);
    /// Canonical key of the state (observations + ledger), used for deduplication.
    fn key(&self, sys: &Self::Sys) -> String;
    fn ev_str(&self, ev: &Self::Ev) -> String;
    fn engine_name(&self) -> String;
    /// Extra JSON stored with every replay case (configuration of the model).
    fn config_json(&self) -> Value {
        Value::Null
    }
    /// Is the state "non-trivial" for evidence purposes?
    fn nontrivial(&self, _sys: &Self::Sys) -> bool {
        true
    }
    /// Keep expanding below a state in which the oracle reported a violation?  Default: no (the
    /// reference no longer describes the system).  Models whose reference is re-synchronised from
    /// the history alone (never from the implementation) may return true.
    fn expand_after_violation(&self) -> bool {
        false
    }
}

pub struct SeqStats {
    pub depth_completed: usize,
    pub frontier_left: usize,
    pub closed: bool,
}

pub fn seq_replay<M: SeqModel>(m: &M, hist: &[M::Ev], check_all: bool) -> (M::Sys, Vec<Violation>) {
    let mut sys = m.init();
    let mut out = vec![];
    for (i, ev) in hist.iter().enumerate() {
        let check = check_all || i + 1 == hist.len();
        let mut raw = vec![];
        m.apply(&mut sys, ev, check, &mut raw);
        for (sig, detail) in raw {
            let fields: Vec<(&str, &str)> = sig.iter().map(|(k, v)| (k.as_str(), v.as_str())).collect();
            let case = json!({
                "engine": m.engine_name(),
                "config": m.config_json(),
                "history": hist[..=i].iter().map(|e| m.ev_str(e)).collect::<Vec<_>>(),
            });
            out.push(Violation::new(&fields, case, detail));
        }
    }
    (sys, out)
}

/// Breadth-first search by history length with deduplication on `key`.
/// Expansion stops below a violating step (the reference no longer describes the system).
pub fn seq_bfs<M: SeqModel>(m: &M, max_depth: usize, max_states: u64, rep: &mut Report) -> SeqStats {
    use std::collections::HashSet;
    let mut seen: HashSet<u64> = HashSet::new();
    let s0 = m.init();
    seen.insert(hash_of(&m.key(&s0)));
    let states_at_start = rep.states;
    rep.states += 1;
    let mut frontier: Vec<Vec<M::Ev>> = vec![vec![]];
    let mut depth_completed = 0;
    let mut capped = false;
    for d in 0..max_depth {
        if frontier.is_empty() {
            break;
        }
        let mut next = vec![];
        // the frontier is processed in chunks so that the successors (with their violation records) of only
        // one chunk are in memory at a time
        for chunk in frontier.chunks(4096) {
            let results = par_map(chunk, cores(), |_, h| {
                let (sys, _) = seq_replay(m, h, false);
                let evs = m.enabled(&sys, h);
                drop(sys);
                let mut succ = vec![];
                for ev in evs {
                    let mut h2 = h.clone();
                    h2.push(ev);
                    let (s2, mut viols) = seq_replay(m, &h2, false);
                    // one record per signature and successor is enough (all occurrences are still counted below)
                    let mut seen_sig = std::collections::BTreeSet::new();
                    let total = viols.len();
                    viols.retain(|v| seen_sig.insert(v.sig_string()));
                    let k = hash_of(&m.key(&s2));
                    let nt = m.nontrivial(&s2);
                    succ.push((k, h2, viols, nt, total));
                }
                succ
            });
            for succ in results {
                for (k, h2, viols, nt, _total) in succ {
                    rep.transitions += 1;
                    rep.evaluations += 1;
                    let bad = !viols.is_empty();
                    for v in viols {
                        rep.violation(v);
                    }
                    if seen.insert(k) {
                        rep.states += 1;
                        if nt {
                            rep.nontrivial_hash(k);
                        }
                        if rep.states % 1009 == 5 || rep.states == 12 {
                            rep.sample(json!(h2.iter().map(|e| m.ev_str(e)).collect::<Vec<_>>().join(" ; ")));
                        }
                        if !bad || m.expand_after_violation() {
                            next.push(h2);
                        }
                    }
                }
            }
            if rep.states - states_at_start > max_states {
                break;
            }
        }
        frontier = next;
        if rep.states - states_at_start > max_states {
            capped = true; // this depth was not completed
            break;
        }
        depth_completed = d + 1;
    }
    let closed = frontier.is_empty();
    if capped {
        rep.exhaustive = false;
    }
    SeqStats { depth_completed, frontier_left: frontier.len(), closed }
}

pub fn seq_replay_case<M: SeqModel>(m: &M, case: &Value, parse: impl Fn(&str) -> Option<M::Ev>) -> Vec<Violation> {
    let hist: Vec<M::Ev> = case
        .get("history")
        .and_then(|h| h.as_array())
        .map(|a| a.iter().filter_map(|s| s.as_str().and_then(&parse)).collect())
        .unwrap_or_default();
    let (_, v1) = seq_replay(m, &hist, true);
    let (_, v2) = seq_replay(m, &hist, true);
    let s1: Vec<String> = v1.iter().map(|v| v.sig_string()).collect();
    let s2: Vec<String> = v2.iter().map(|v| v.sig_string()).collect();
    if s1 != s2 {
        machinery_failure("replaying the same history twice gave different observations");
    }
    v1
}

pub fn sigv(fields: &[(&str, &str)]) -> Vec<(String, String)> {
    fields.iter().map(|(k, v)| (k.to_string(), v.to_string())).collect()
}
