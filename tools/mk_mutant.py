#!/usr/bin/env python3
"""tools/mk_mutant.py <name> <repo-relative-file> <old> <new> [count]: writes mutants/<name>.diff (a/ b/ unified diff
against /repo's current working tree) replacing the first (or `count`-th, 1-based) occurrence of <old> by <new>."""
import sys, difflib
name, rel, old, new = sys.argv[1:5]
nth = int(sys.argv[5]) if len(sys.argv) > 5 else 1
src = open('/repo/' + rel).read()
idx = -1
for _ in range(nth):
    idx = src.find(old, idx + 1)
    if idx < 0:
        sys.exit(f"pattern not found ({nth}): {old!r}")
dst = src[:idx] + new + src[idx + len(old):]
d = difflib.unified_diff(src.splitlines(True), dst.splitlines(True), 'a/' + rel, 'b/' + rel)
open(f'/verif/mutants/{name}.diff', 'w').write(''.join(d))
print("wrote", f'/verif/mutants/{name}.diff')
