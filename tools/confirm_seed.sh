#!/bin/bash
# tools/confirm_seed.sh <id> <crate> <demo-file-name> [cargo-test-extra-args...]
# Confirms an independently produced seeded change in ONE reusable scratch worktree (/var/tmp/vconfirm/wt, outside /repo
# and /verif): patch applies to /repo's HEAD, demo fails with it, demo passes without it, repository suite passes with it.
# Input: /tmp/seed/<id>.out/{patch.diff,demo/<demo-file-name>}. Log: /tmp/seed/<id>.out/confirm.log
id="$1"; crate="$2"; demo="$3"; shift 3
OUT=/tmp/seed/$id.out; P="${PATCH:-/tmp/seed/$id.out/patch.diff}"; WT=/var/tmp/vconfirm/wt; L=$OUT/confirm.log
exec 9>/var/tmp/vconfirm.lock; flock 9
mkdir -p /var/tmp/vconfirm
if [ ! -d $WT ]; then git -C /repo worktree add --detach $WT HEAD >/dev/null 2>&1 || exit 2; fi
cd $WT && git checkout -q --detach "$(git -C /repo rev-parse HEAD)" && git checkout -q -- . && git clean -qfd -e target
: > $L
git apply --check $P 2>>$L || { echo "RESULT $id patch-does-not-apply" | tee -a $L; exit 1; }
tname="${demo%.rs}"
cp $OUT/demo/$demo crates/$crate/tests/$demo
# without the change
cargo test --offline -p $crate --test $tname "$@" > $OUT/confirm.demo_without.log 2>&1; rc_without=$?
git apply $P
cargo test --offline -p $crate --test $tname "$@" > $OUT/confirm.demo_with.log 2>&1; rc_with=$?
rm -f crates/$crate/tests/$demo
if [ "${SKIP_SUITE:-0}" = 1 ]; then suite="skipped"; else
  cargo nextest run --workspace --no-fail-fast --tool-config-file pb:/w/lib/nextest.toml --profile pb --test-threads 8 --offline > $OUT/confirm.suite.log 2>&1
  suite=$(grep -E "^\s*Summary" $OUT/confirm.suite.log | tail -1 | sed 's/\s\+/ /g')
  failed=$(grep -E "^\s+(FAIL|SIGABRT|SIGSEGV|TIMEOUT)" $OUT/confirm.suite.log | sort -u | head -5 | tr '\n' ';')
fi
git checkout -q -- . 
echo "RESULT $id demo_without_change_rc=$rc_without demo_with_change_rc=$rc_with suite=[$suite] failed=[$failed]" | tee -a $L
