#!/usr/bin/env python3
"""tools/carry_over_generated.py <old_ledger.json>: after tools/ledger_from_replays.py has regenerated the C01 / C02 session
cells from the runs that could be completed, re-adds the generated cells of an earlier ledger that the new runs did not
produce (same matcher apart from the probe list: probe lists are united; otherwise the old entry is appended, marked
carried_over). Used when a regeneration could not include a full thorough run; a carried-over cell that no longer
reproduces only prints an INFO line. Builder tool; never run by a check."""
import json, sys
old = json.load(open(sys.argv[1]))
p = '/verif/findings/known_findings.json'
new = json.load(open(p))
def key(e):
    m = dict(e['matcher']); m.pop('probe', None)
    return (e['property'], json.dumps(m, sort_keys=True))
idx = {key(e): e for e in new['findings'] if e.get('generated')}
ids = {e['id'] for e in new['findings']}
added = united = 0
for e in old['findings']:
    if not e.get('generated'):
        continue
    k = key(e)
    if k in idx:
        cur = idx[k]['matcher'].get('probe', [])
        cur = [cur] if isinstance(cur, str) else cur
        oldp = e['matcher'].get('probe', [])
        oldp = [oldp] if isinstance(oldp, str) else oldp
        u = sorted(set(cur) | set(oldp))
        if u != sorted(cur):
            idx[k]['matcher']['probe'] = u
            united += 1
    else:
        e = dict(e); e['carried_over'] = True
        base = e['id']; i = 0
        while e['id'] in ids:
            i += 1; e['id'] = f"{base}-o{i}"
        ids.add(e['id'])
        new['findings'].append(e)
        added += 1
json.dump(new, open(p, 'w'), indent=1)
print(f"carried over {added} cells, united probe lists of {united}")
