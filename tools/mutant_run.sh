#!/bin/bash
# tools/mutant_run.sh <patch.diff> <Cxx> [more Cxx ...]   (env TIER=quick|thorough)
# Runs checks against a scratch worktree of /repo with <patch.diff> applied, WITHOUT touching /repo:
# a copy of /verif (sources only) is made under /var/tmp/vmut, its Cargo manifests are pointed at the worktree.
set -u
patch="$(readlink -f "$1")"; shift
WT=/var/tmp/vmut/repo; VR=/var/tmp/vmut/verif
mkdir -p /var/tmp/vmut
# one mutant run at a time (the scratch trees are shared)
exec 9>/var/tmp/vmut/.lock; flock 9
# scratch copy of /repo's current working tree (committed or not), never /repo itself
mkdir -p "$WT"
# no -t: a file whose content changes (patched, or restored after the previous mutant) gets a fresh mtime, so cargo rebuilds it;
# --checksum: unchanged files are left alone (and keep their scratch mtime)
rsync -rlpgoD --checksum --delete --exclude target --exclude .git /repo/ "$WT"/
( cd "$WT" && git apply --unsafe-paths "$patch" ) || ( cd "$WT" && patch -p1 --no-backup-if-mismatch < "$patch" ) || { echo "patch does not apply"; exit 2; }
mkdir -p "$VR"
rsync -a --delete --exclude target --exclude evidence --exclude replays --exclude .git /verif/ "$VR"/
mkdir -p "$VR/evidence" "$VR/replays"
find "$VR" -name Cargo.toml -o -name config.toml | xargs sed -i -e "s#/repo/#$WT/#g" -e "s#/verif/target#$VR/target#g" -e "s#\.\./shims#$VR/shims#g"
rc_all=0
for p in "$@"; do
  echo "=== mutant $(basename "$(dirname "$patch")")/$(basename "$patch") vs $p"
  VERIF_ROOT="$VR" "$VR/check" "$p" --tier "${TIER:-quick}" > "$VR/last_run.log" 2>&1
  grep -E "^SUMMARY|MACHINERY" "$VR/last_run.log" | cut -c1-400
  grep -E "^VIOLATION" "$VR/last_run.log" | cut -c1-600 | head -${LINES_MAX:-12}
  echo "(known-finding lines: $(grep -c '^KNOWN-FINDING' "$VR/last_run.log"); listed findings that did not reproduce: $(grep -c '^INFO: listed finding' "$VR/last_run.log"))"
done
