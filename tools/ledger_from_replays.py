#!/usr/bin/env python3
"""tools/ledger_from_replays.py <Cxx> : (re)generates the session-layer known-finding cells of C01 / C02 in
findings/known_findings.json from the replay files of a run on the UNCHANGED tree (both tiers), grouped by
root-cause class. Each entry is one cell row (anomaly, ending, reader, write) with the list of read paths through which
it was observed; a violation outside these cells is reported as VIOLATION. Never run by a check."""
import json, glob, sys, collections
prop = sys.argv[1]
ROOT = {
 'sees-uncommitted': ("LPG writes of an open transaction are visible to other sessions: entities created in a transaction carry created_epoch = the start epoch (visible to every reader whose epoch >= it), and labels, properties, adjacency and indexes are single-version and mutated in place", "crates/grafeo-common/src/mvcc.rs:45-76; crates/grafeo-engine/src/session.rs:712; crates/grafeo-core/src/graph/lpg/store.rs:218-260"),
 'sees-later-commit': ("no stable snapshot: work committed (or auto-committed) after a transaction began is visible to it (autocommit writes do not advance the epoch; side tables are single-version; the RDF store has no versions)", "crates/grafeo-engine/src/session.rs:694-712; crates/grafeo-core/src/graph/lpg/store.rs; crates/grafeo-core/src/graph/rdf/store.rs"),
 'misses-own-write': ("a transaction does not see its own uncommitted write through this read path (operators read through store-epoch / index paths that ignore the transaction's own versions; RDF scans ignore the pending buffer on this path)", "crates/grafeo-engine/src/query/planner.rs; crates/grafeo-core/src/execution/operators/{scan,expand}.rs; crates/grafeo-engine/src/query/planner_rdf.rs"),
 'sees-rolled-back/rollback': ("rollback leaves residue: discard_uncommitted_versions removes version-chain entries only; in-place effects of SET / REMOVE / DELETE / label changes are not undone and adjacency keeps rolled-back edges", "crates/grafeo-core/src/graph/lpg/store.rs:1997-2060; crates/grafeo-engine/src/session.rs:651-670"),
 'sees-rolled-back/failed-commit': ("a commit that reports an error leaves the transaction's writes visible (nothing is undone; Session::commit applies the RDF buffer before TransactionManager::commit can refuse)", "crates/grafeo-engine/src/session.rs:615-650"),
 'sees-rolled-back/session-drop': ("dropping a session with an open transaction undoes nothing (no Drop for Session): its LPG writes stay visible and its transaction stays Active", "crates/grafeo-engine/src/session.rs (no Drop impl)"),
 'misses-committed': ("a committed write is not visible to a later observer through this read path (LpgStore.current_epoch is never advanced by the engine, so store-epoch paths ignore entities created at epoch >= 1; index / range paths ignore the viewing epoch)", "crates/grafeo-core/src/graph/lpg/store.rs:339-347,1581-1640; crates/grafeo-engine/src/query/planner.rs"),
 'unexplained': ("two or more of the listed single-operation anomalies at once (the answer is not explained by adding or removing exactly one operation)", "see the single-operation findings of this property"),
 'repeat-read-differs': ("repeating a read inside one transaction gave a different answer", "see sees-later-commit"),
 'count-not-committed-state': ("GrafeoDB::node_count / edge_count evaluate at the store epoch, which the engine never advances: they do not reflect the committed state", "crates/grafeo-core/src/graph/lpg/store.rs:1581-1600,1964-1990"),
}
cells = collections.defaultdict(set)
wit = {}
for f in glob.glob(f'/verif/replays/{prop}/*.json'):
    d = json.load(open(f)); s = d['signature']
    if s.get('layer') not in ('session', 'database'): continue
    key = (s['layer'], s['anomaly'], s.get('ending', '-'), s.get('reader', '-'), s.get('write', '-'), s.get('diff', '-'))
    cells[key].add(s.get('probe', '-'))
    h = d.get('case', {}).get('history', [])
    if key not in wit or len(h) < len(wit[key][0]): wit[key] = (h, d.get('detail', ''))
led = json.load(open('/verif/findings/known_findings.json'))
led['findings'] = [x for x in led['findings'] if not (x.get('generated') and x['property'] == prop)]
n = 0
for key in sorted(cells):
    layer, an, ending, reader, write, diff = key
    rc = ROOT.get(f'{an}/{ending}') or ROOT.get(an)
    if rc is None:
        print("no root-cause class for", key, "- not listed (will stay a VIOLATION)"); continue
    n += 1
    m = {"layer": layer, "anomaly": an, "probe": sorted(cells[key])}
    if layer == 'session':
        m.update({"ending": ending, "reader": reader, "write": write, "diff": diff})
    led['findings'].append({
        "id": f"{prop}-K{n:03d}", "property": prop, "status": "known", "generated": True,
        "title": f"{an} [{write} / {reader}{'' if ending == '-' else ' / ' + ending}{'' if diff == '-' else ' / ' + diff}]: {rc[0]}",
        "root_cause": rc[1],
        "witness": f"history {' ; '.join(wit[key][0])} -> {wit[key][1][:300]} (shortest recorded; read paths of this cell: {', '.join(sorted(cells[key]))})",
        "matcher": m})
json.dump(led, open('/verif/findings/known_findings.json', 'w'), indent=1)
print(f"{prop}: {n} cell rows listed")
