#!/bin/bash
# tools/run_all.sh <quick|thorough> [ids...]: runs the registered command of every check, one line per check
# (exit code, wall seconds, VIOLATION lines). Log: /var/tmp/vall/<tier>/<id>.log
tier="${1:-quick}"; shift
ids="${*:-C01 C02 C03 C04 C05 C06 C07 C08 C09 C10 C11 C12 C13 C14 C15 C16 C17 C18 C19 C20}"
mkdir -p /var/tmp/vall/$tier; cd /verif
for id in $ids; do
  t0=$(date +%s); ./check $id --tier $tier > /var/tmp/vall/$tier/$id.log 2>&1; rc=$?; t1=$(date +%s)
  echo "$id $tier exit=$rc wall=$((t1-t0))s viol=$(grep -c '^VIOLATION' /var/tmp/vall/$tier/$id.log) known=$(grep -c '^KNOWN-FINDING' /var/tmp/vall/$tier/$id.log)"
  grep '^VIOLATION' /var/tmp/vall/$tier/$id.log | cut -c1-400 | head -5
done
