#!/usr/bin/env python3
"""tools/merge_confirm.py: copies the builder's own confirmation of each seeded change (tools/confirm_seed.sh RESULT line:
demo without / with the change, repository suite with the change) into seeded/<id>/meta.json under `confirmed_by_builder`."""
import json, os, re, sys, glob
for d in sorted(glob.glob('/verif/seeded/*/')):
    sid = os.path.basename(d.rstrip('/'))
    log = f'/tmp/seed/{sid}.out/confirm.log'
    if not os.path.exists(log):
        continue
    txt = open(log).read()
    m = re.search(r'RESULT (\S+) demo_without_change_rc=(\d+) demo_with_change_rc=(\d+) suite=\[(.*?)\] failed=\[(.*?)\]', txt)
    if not m:
        continue
    meta = json.load(open(d + 'meta.json'))
    meta['confirmed_by_builder'] = {
        'tool': 'tools/confirm_seed.sh (one scratch worktree of /repo HEAD outside /repo and /verif)',
        'demo_passes_without_change': m.group(2) == '0',
        'demo_fails_with_change': m.group(3) != '0',
        'suite_with_change': m.group(4) or 'not run by the builder (time); the producing agent reports it above',
        'suite_failures': m.group(5),
    }
    json.dump(meta, open(d + 'meta.json', 'w'), indent=2)
    print(sid, meta['confirmed_by_builder'])
