#!/usr/bin/env python3
"""tools/merge_confirm.py: copies the builder's own confirmation of each seeded change (tools/confirm_seed.sh RESULT line:
demo without / with the change, repository suite with the change) into seeded/<id>/meta.json under `confirmed_by_builder`.
Seeds whose individual suite run was skipped for time refer to the one combined run (all of them applied together,
/var/tmp/confirm_combined.suite.log) when that run finished."""
import json, os, re, glob

combined = None
cl = '/var/tmp/confirm_combined.suite.log'
if os.path.exists(cl):
    t = open(cl).read()
    mm = re.findall(r'^\s*Summary.*$', t, re.M)
    if mm:
        fails = sorted(set(re.findall(r'^\s+(?:FAIL|SIGABRT|SIGSEGV|TIMEOUT).*?\)\s+(\S.*)$', t, re.M)))
        combined = mm[-1].strip() + (' ; failed: ' + '; '.join(fails) if fails else '')

for d in sorted(glob.glob('/verif/seeded/*/')):
    sid = os.path.basename(d.rstrip('/'))
    log = f'/tmp/seed/{sid}.out/confirm.log'
    if not os.path.exists(log):
        continue
    txt = open(log).read()
    m = re.search(r'RESULT (\S+) demo_without_change_rc=(\d+) demo_with_change_rc=(\d+) suite=\[(.*?)\] failed=\[(.*)\]\s*$', txt, re.M)
    if not m:
        continue
    meta = json.load(open(d + 'meta.json'))
    suite = m.group(4).strip()
    if suite == 'skipped':
        if combined:
            suite = ('individual run skipped for time; one run of the repository suite with the seven round-three changes '
                     'C05c C06c C14c C16b C17c C19b C20c applied together (disjoint files): ' + combined)
        else:
            suite = 'not run by the builder (the machine was saturated; a combined run did not finish in time); the producing agent reports its own run above'
    meta['confirmed_by_builder'] = {
        'tool': 'tools/confirm_seed.sh (one scratch worktree of /repo HEAD outside /repo and /verif)',
        'demo_passes_without_change': m.group(2) == '0',
        'demo_fails_with_change': m.group(3) != '0',
        'suite_with_change': suite,
        'suite_failures': re.sub(r'\s+', ' ', m.group(5)).strip(),
    }
    if 'test_async_transaction_isolation' in meta['confirmed_by_builder']['suite_failures']:
        meta['confirmed_by_builder']['note'] = 'the one failure is the sleep-based grafeo-engine::concurrent_sessions test_async_transaction_isolation, which fails sporadically under load with or without any change (DESIGN.md 8.6)'
    json.dump(meta, open(d + 'meta.json', 'w'), indent=2)
    print(sid, meta['confirmed_by_builder']['demo_passes_without_change'], meta['confirmed_by_builder']['demo_fails_with_change'], suite[:80])
