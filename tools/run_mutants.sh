#!/bin/bash
# tools/run_mutants.sh [pattern]: runs every mutants/<Cxx>-*.diff against its property's quick check (on scratch copies) and
# prints one line per mutant: CAUGHT / MISSED. Log: /var/tmp/vmut/mutants.log
cd /verif
for f in mutants/${1:-*}.diff; do
  p=$(basename "$f" | cut -d- -f1)
  out=$(tools/mutant_run.sh "$f" "$p" 2>&1)
  if echo "$out" | grep -q "^VIOLATION"; then echo "CAUGHT $f by $p: $(echo "$out" | grep -m1 '^VIOLATION' | sed 's/.*sig=\[\([^]]*\)\].*/\1/' | cut -c1-150)";
  elif echo "$out" | grep -q "MACHINERY"; then echo "MACHINERY $f: $(echo "$out" | grep -m1 MACHINERY | cut -c1-200)";
  else echo "MISSED $f by $p"; fi
done 2>&1 | tee -a /var/tmp/vmut/mutants.log
