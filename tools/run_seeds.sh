#!/bin/bash
# tools/run_seeds.sh: runs every seeded/<id>/patch.diff against the checks listed in seeded/<id>/checks (default: its own
# property) on scratch copies; one line per (seed, check): CAUGHT / MISSED. Log: /var/tmp/vmut/seeds.log
cd /verif
for d in seeded/${1:-*}/; do
  id=$(basename "$d"); p=${id%[a-z]}
  checks="$p"; [ -f "$d/checks" ] && checks=$(cat "$d/checks")
  for c in $checks; do
    out=$(tools/mutant_run.sh "$d/patch.diff" "$c" 2>&1)
    if echo "$out" | grep -q "^VIOLATION"; then echo "CAUGHT $id by $c: $(echo "$out" | grep -m1 '^VIOLATION' | sed 's/.*sig=\[\([^]]*\)\].*/\1/' | cut -c1-160)";
    elif echo "$out" | grep -q "MACHINERY"; then echo "MACHINERY $id/$c: $(echo "$out" | grep -m1 MACHINERY | cut -c1-200)";
    else echo "MISSED $id by $c"; fi
  done
done 2>&1 | tee -a /var/tmp/vmut/seeds.log
