#!/usr/bin/env python3
"""Generates /verif/MANIFEST.json from the table below (kept in one place so the file is always schema-valid)."""
import json, subprocess, sys
ALL = [f"C{n:02d}" for n in range(1, 21)]
# property -> (level category, engine, technique, level text, level note, design_ref)
CHECKS = {}
def add(pid, cat, engine, technique, text, note, ref):
    CHECKS[pid] = dict(cat=cat, engine=engine, technique=technique, text=text, note=note, ref=ref)

exec(open('/verif/tools/manifest_table.py').read())

hook_commits = []
try:
    out = subprocess.run(['git', '-C', '/repo', 'log', '--format=%H %s'], capture_output=True, text=True).stdout
    for line in out.splitlines():
        h, s = line.split(' ', 1)
        if s.startswith('verif-hooks:'):
            hook_commits.append(h)
except Exception:
    pass

m = {
    "version": 1,
    "setup_cmd": "cd /verif && ./setup.sh",
    "hooks": {
        "guard": "cargo feature `verif-hooks` (grafeo-common/-core/-adapters/-engine); off by default",
        "enable": "the harness workspaces under /verif depend on /repo's crates by path with features=[\"verif-hooks\"]; no RUSTFLAGS",
        "baseline_off_cmd": "cd /repo && cargo nextest run --workspace --no-fail-fast --tool-config-file pb:/w/lib/nextest.toml --profile pb --test-threads 8 --offline",
        "source_commits": hook_commits,
        "add_only": True,
    },
    "engines": [
        {"name": "SEQ", "path": "/verif/harness/crates/vcheck", "kind_free_text": "explicit-state BFS over event histories of the real objects (state = history, rebuilt by replay, deduplicated on an observation/ledger key), oracle = boring reference model or cross-accessor invariant"},
        {"name": "ENUM", "path": "/verif/harness/crates/vcheck", "kind_free_text": "bounded-exhaustive enumeration of an explicitly written finite input product against a reference evaluator / round-trip identity / algebraic law"},
        {"name": "CRASH", "path": "/verif/harness/crates/vcheck", "kind_free_text": "enumeration of every crash image (every torn-tail length, every bit flip) of a short write history on the real WAL, recovered with the real open()"},
        {"name": "SCHED", "path": "/verif/sched", "kind_free_text": "preemption-bounded exhaustive DFS over thread interleavings of the real code: parking_lot replaced via [patch] by a shim over shuttle primitives, own iterative-context-bounding scheduler"},
    ],
    "checks": [],
    "not_applicable": [],
    "notes": "See DESIGN.md. Exit 2 of ./check means machinery failure (build error, engine crash), never a verdict.",
}
for e in m["engines"]:
    e["serves_properties"] = [p for p, c in CHECKS.items() if e["name"] in c["engine"]]
for pid in ALL:
    if pid in CHECKS:
        c = CHECKS[pid]
        m["checks"].append({
            "property_id": pid,
            "quick_cmd": f"./check {pid} --tier quick",
            "thorough_cmd": f"./check {pid} --tier thorough",
            "evidence_file": f"/verif/evidence/{pid}.json",
            "replay_cmd_template": f"./check {pid} --replay {{path}}",
            "engine": c["engine"],
            "level_claimed": {"category": c["cat"], "text": c["text"], "design_ref": c["ref"]},
            "level_note": c["note"],
            "technique": c["technique"],
        })
    else:
        m["not_applicable"].append({"property_id": pid, "reason": NA.get(pid, "check not built yet in this round; see DESIGN.md for the planned bounded-exhaustive check")})
json.dump(m, open('/verif/MANIFEST.json', 'w'), indent=1)
try:
    import jsonschema
    jsonschema.validate(m, json.load(open('/root/.vp/MANIFEST.schema.json')))
    print("MANIFEST.json valid;", len(m["checks"]), "checks,", len(m["not_applicable"]), "not_applicable")
except ImportError:
    print("jsonschema not importable; wrote MANIFEST.json unvalidated")
