#!/bin/bash
# tools/regen_session_ledger.sh: regenerates the generated C01/C02 session-cell entries of findings/known_findings.json
# from runs of both tiers on the UNCHANGED tree (builder tool; never run by a check).
cd /verif
python3 - <<'PY'
import json
p='/verif/findings/known_findings.json'
d=json.load(open(p))
d['findings']=[x for x in d['findings'] if not (x.get('generated') and x['property'] in ('C01','C02'))]
json.dump(d,open(p,'w'),indent=1)
PY
rm -rf replays/C01 replays/C02
for p in C01 C02; do for t in quick thorough; do ./check $p --tier $t > /var/tmp/regen_${p}_${t}.log 2>&1; echo "$p $t exit=$?"; done; done
python3 tools/ledger_from_replays.py C01; python3 tools/ledger_from_replays.py C02
for p in C01 C02; do for t in thorough quick; do ./check $p --tier $t 2>&1 | grep -E "^SUMMARY|^VIOLATION" | head -5; echo "$p $t exit=${PIPESTATUS[0]}"; done; done
