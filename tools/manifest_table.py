NA = {}
add("C03", "model_checking", "SEQ",
    "explicit-state model checking of the real TransactionManager: exhaustive BFS over begin/write/commit/abort/gc histories within bounds, with a gc-erased twin run in lock-step",
    "Every history of begin/write/commit/abort/gc over <=3-4 transactions and 2-3 entities up to the stated depth is executed on the real TransactionManager; each commit verdict is compared with the overlap rule computed from the real-time order of the history (required refusal, forbidden refusal) and with the verdict of the same history without its gc events.",
    "Bounded: transactions, entities, accesses per transaction and depth as recorded in evidence.bounds. The harness ledger is the reference model; sessions do not register writes at this commit (integration layer reported separately).",
    "DESIGN.md §3/C03")
add("C04", "model_checking", "SEQ",
    "explicit-state model checking of the real TransactionManager with reads: exhaustive BFS over histories, direct serialization graph checked on every committed set",
    "Every history of begin(level)/read/write/commit/abort/gc within bounds is executed on the real TransactionManager; the direct serialization graph (ww, wr, rw) of the committed Serializable transactions must be acyclic and forward in commit order, the SSI refusal must occur exactly where the statement requires it, and read-only / non-overlapping transactions must not be refused.",
    "Data semantics of a read (which version it observes) are attached by the harness. Bounded as recorded in evidence.bounds.",
    "DESIGN.md §3/C04")
