NA = {}
add("C03", "model_checking", "SEQ",
    "explicit-state model checking of the real TransactionManager: exhaustive BFS over begin/write/commit/abort/gc histories within bounds, with a gc-erased twin run in lock-step",
    "Every history of begin/write/commit/abort/gc over <=3-4 transactions and 2-3 entities up to the stated depth is executed on the real TransactionManager; each commit verdict is compared with the overlap rule computed from the real-time order of the history (required refusal, forbidden refusal) and with the verdict of the same history without its gc events.",
    "Bounded: transactions, entities, accesses per transaction and depth as recorded in evidence.bounds. The harness ledger is the reference model; sessions do not register writes at this commit (integration layer reported separately).",
    "DESIGN.md §3/C03")
add("C04", "model_checking", "SEQ",
    "explicit-state model checking of the real TransactionManager with reads: exhaustive BFS over histories, direct serialization graph checked on every committed set",
    "Every history of begin(level)/read/write/commit/abort/gc within bounds is executed on the real TransactionManager; the direct serialization graph (ww, wr, rw) of the committed Serializable transactions must be acyclic and forward in commit order, the SSI refusal must occur exactly where the statement requires it, and read-only / non-overlapping transactions must not be refused.",
    "Data semantics of a read (which version it observes) are attached by the harness. Bounded as recorded in evidence.bounds.",
    "DESIGN.md §3/C04")
add("C13", "model_checking", "SEQ",
    "explicit-state model checking of the real RdfStore: BFS to closure over insert/remove/clear/transaction-buffer histories on a small colliding triple universe, both object-index settings, all 8 pattern shapes probed after every transition",
    "Every reachable state of the real RdfStore over a 6-8 triple universe (IRIs, blank node, plain / language-tagged / typed literals chosen to collide in every index) is visited by BFS until closure; after every transition all 8 bound/unbound pattern shapes x all term choices (plus an absent term per position) and every other accessor are compared with a BTreeSet of triples: exactly the matching triples, once each.",
    "Store layer only at this commit; the SPARQL evaluation layer is described in DESIGN.md and listed in evidence when present. Universe and pending-buffer bounds as recorded in evidence.store_layers.",
    "DESIGN.md §3/C13")
add("C14", "model_checking", "SEQ",
    "explicit-state model checking of the real LpgStore / GrafeoDB: BFS over mutation histories in four layers (structure, property+index+zone-map, adjacency thresholds, database), cross-accessor agreement and a reference graph checked after every transition",
    "Every history up to the stated depth over create/delete node and edge (self-loops, parallel edges), labels, properties over a value alphabet incl. NaN/-0.0/Null, index create/drop, zone-map rebuild, statistics refresh, and macro events crossing the 64-entry adjacency thresholds is executed on the real store, with and without backward adjacency; after every transition label lookup, neighbour lists and degrees in both directions, point lookups, property lookup by index vs scan, range lookup, min/max pruning soundness, counts and statistics are compared with a dumb reference graph.",
    "Store-level delete_node is issued on detached nodes only (documented as non-cascading); pruning soundness counts same-variant comparisons as definite matches only. Bounds per layer in evidence.layers.",
    "DESIGN.md §3/C14")
add("C15", "exploration", "ENUM",
    "bounded-exhaustive input enumeration: every sequence up to length 4-6 over boundary alphabets, pattern x length families at word/block boundaries, every bit width 0..=64, BFS over BitVector / property-column / adjacency histories, against round-trip, random-access, iterator, byte-image and truncation identities on the real codecs",
    "Exhaustive over the stated finite products (about 1.7M cases quick / 23M thorough): decode(encode(x)) == x, get(i) == decode()[i], iterators agree, to_bytes/from_bytes round-trips, every truncation of a valid block is rejected or self-consistent, the codec selector round-trips whatever it picks, compressed property columns and cold adjacency chunks read the same as uncompressed ones.",
    "epoch_store (feature tiered-storage) and succinct structures (feature succinct-indexes) are not compiled in any shipped build and are not checked; truncation covers every strict prefix for blocks up to 1100 bytes and a stated subset above.",
    "DESIGN.md §3/C15")
add("C16", "exploration", "ENUM",
    "bounded-exhaustive enumeration: all singles/pairs/triples of a boundary value alphabet through the real wrapper types, all values plus a bit-pattern sweep through every Rust-side serialisation, all pairs/triples through the real indexes and DISTINCT / GROUP BY / sort operators",
    "Exhaustive over the stated alphabet (64/167 values: all pairs and triples) and sweep (1.7e4/2.6e5 values x 9 serialisation paths): equivalence / hash / total-order laws of HashableValue, OrderableValue, OrderedFloat64 and the B-tree float key; bit-for-bit survival through bincode, spill serializer, spill file, WAL log+recovery, close/reopen, snapshot export/import, save/open; real containers never split an equal pair or merge an unequal one.",
    "JSON conversions of crates/bindings are outside the dependency set; cross-variant sort order and NaN position are recorded as information only.",
    "DESIGN.md §3/C16")
add("C19", "exploration", "ENUM",
    "bounded-exhaustive enumeration of all small labelled directed multigraphs x weight assignments x endpoints against brute-force oracles (path, subset, cut and integral-flow enumeration) on the real algorithm functions and ShortestPathOperator",
    "Exhaustive within: up to 3 nodes and 3 edges plus 4 nodes with 4 unit-weight edges (quick); up to 3 nodes and 4 edges, 4 nodes and 3 edges, 4 nodes with 4 edges of weight {1,2}, Int64 weights (thorough); weights {1,2,0,missing}, -1 for Bellman-Ford / Floyd-Warshall, (capacity, cost) pairs for min-cost flow; every source/target.",
    "Input enumeration rather than state-space search; heuristic algorithms (community detection) checked for structural sanity and the modularity value only; listed under-determined conventions are tolerated and counted in evidence.",
    "DESIGN.md §3/C19")
add("C18", "model_checking", "SEQ+ENUM",
    "explicit-state exploration of every insert / re-insert / remove history (full-history keys, two independent builds) on the real HnswIndex / QuantizedHnswIndex with a per-step oracle over all queries x metrics x k x ef, plus bounded-exhaustive enumeration of distance kernels, exact search, zone map, quantisers, vector storage and GrafeoDB vector APIs against f64 definitions",
    "All histories up to depth 3-4 (quick) / 5-7 on reduced menus (thorough) for seeds {0,1,2}, m {2,16}, dimensions 1-3: every search result has at most k distinct, currently present ids with distances equal to the scalar definition, sorted, batch == single; exact search is exactly the k nearest; kernels agree with the plain definitions for every dimension 1..=33, 64, 65; quantiser errors within one step.",
    "The layer-0 graph is private, so 'returns k when k are reachable' is checked as non-emptiness only (short results are counted); only the AVX2 kernel path is reachable on this host; batch search is compared on a deterministic subset of states in the quick tier.",
    "DESIGN.md §3/C18")
add("C20", "model_checking", "SCHED",
    "stateless model checking of real threads: preemption-bounded exhaustive DFS (iterative context bounding) over thread interleavings of the real code, with parking_lot replaced via [patch] by a shim over shuttle primitives; brute-force linearizability against sequential executions of the real object plus quiescent invariants",
    "For each of ~17 two/three-thread scenarios forced to collide on the same entities (node/edge create and delete, label and property updates with a property index, triple insert/remove/clear, begin/write/commit/gc, memory grant/release/resize at the hard limit, statistics refresh and scans) EVERY interleaving at lock-acquisition granularity with at most 3 (quick) / 5 (thorough) preemptions is executed; the recorded call/return history must equal some sequential order consistent with real time; ids unique, acknowledged creations visible, derived indexes agree with primary data at quiescence, commit epochs unique and increasing, memory accounting exact, no deadlock, no panic.",
    "Std atomics run sequentially consistently under the scheduler (weak-memory effects out of reach); DashMap shard locks, rayon and crossbeam are not intercepted; the WAL (tokio dependency) and HNSW scenarios are not part of this commit's scenario list.",
    "DESIGN.md §3/C20")
