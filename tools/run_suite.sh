#!/bin/bash
# tools/run_suite.sh <tag>: runs the repository's baseline test command (guard OFF) on a snapshot copy of /repo's
# working tree, so that /repo stays editable meanwhile. Log: /var/tmp/vsuite/<tag>.log
tag="${1:-run}"
mkdir -p /var/tmp/vsuite
rsync -a --delete --exclude .git /repo/ /var/tmp/vsuite/repo/
( cd /repo && git diff HEAD --stat ) > /var/tmp/vsuite/$tag.diffstat 2>&1
cd /var/tmp/vsuite/repo && ( time cargo nextest run --workspace --no-fail-fast --tool-config-file pb:/w/lib/nextest.toml --profile pb --test-threads 8 --offline ) > /var/tmp/vsuite/$tag.log 2>&1
tail -4 /var/tmp/vsuite/$tag.log
