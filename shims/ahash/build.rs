#![deny(warnings)]

use std::env;

fn main() {
    println!("cargo:rerun-if-changed=build.rs");
    println!("cargo:rustc-check-cfg=cfg(specialize)");
    if let Some(true) = version_check::supports_feature("specialize") {
        println!("cargo:rustc-cfg=specialize");
    }
    let arch = env::var("CARGO_CFG_TARGET_ARCH").expect("CARGO_CFG_TARGET_ARCH was not set");
    println!("cargo:rustc-check-cfg=cfg(folded_multiply)");
    if arch.eq_ignore_ascii_case("x86_64")
        || arch.eq_ignore_ascii_case("aarch64")
        || arch.eq_ignore_ascii_case("mips64")
        || arch.eq_ignore_ascii_case("powerpc64")
        || arch.eq_ignore_ascii_case("riscv64gc")
        || arch.eq_ignore_ascii_case("s390x")
    {
        println!("cargo:rustc-cfg=folded_multiply");
    }
}
