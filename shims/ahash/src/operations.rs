use crate::convert::*;
#[allow(unused)]
use zerocopy::transmute;

///This constant comes from Kunth's prng (Empirically it works better than those from splitmix32).
pub(crate) const MULTIPLE: u64 = 6364136223846793005;

/// This is a constant with a lot of special properties found by automated search.
/// See the unit tests below. (Below are alternative values)
#[cfg(all(target_feature = "ssse3", not(miri)))]
const SHUFFLE_MASK: u128 = 0x020a0700_0c01030e_050f0d08_06090b04_u128;
//const SHUFFLE_MASK: u128 = 0x000d0702_0a040301_05080f0c_0e0b0609_u128;
//const SHUFFLE_MASK: u128 = 0x040A0700_030E0106_0D050F08_020B0C09_u128;

#[inline(always)]
#[cfg(folded_multiply)]
pub(crate) const fn folded_multiply(s: u64, by: u64) -> u64 {
    let result = (s as u128).wrapping_mul(by as u128);
    ((result & 0xffff_ffff_ffff_ffff) as u64) ^ ((result >> 64) as u64)
}

#[inline(always)]
#[cfg(not(folded_multiply))]
pub(crate) const fn folded_multiply(s: u64, by: u64) -> u64 {
    let b1 = s.wrapping_mul(by.swap_bytes());
    let b2 = s.swap_bytes().wrapping_mul(!by);
    b1 ^ b2.swap_bytes()
}

/// Given a small (less than 8 byte slice) returns the same data stored in two u32s.
/// (order of and non-duplication of bytes is NOT guaranteed)
#[inline(always)]
pub(crate) fn read_small(data: &[u8]) -> [u64; 2] {
    debug_assert!(data.len() <= 8);
    if data.len() >= 2 {
        if data.len() >= 4 {
            //len 4-8
            [data.read_u32().0 as u64, data.read_last_u32() as u64]
        } else {
            //len 2-3
            [data.read_u16().0 as u64, data[data.len() - 1] as u64]
        }
    } else {
        if data.len() > 0 {
            [data[0] as u64, data[0] as u64]
        } else {
            [0, 0]
        }
    }
}

#[inline(always)]
pub(crate) fn shuffle(a: u128) -> u128 {
    #[cfg(all(target_feature = "ssse3", not(miri)))]
    {
        #[cfg(target_arch = "x86")]
        use core::arch::x86::*;
        #[cfg(target_arch = "x86_64")]
        use core::arch::x86_64::*;
        unsafe { transmute!(_mm_shuffle_epi8(transmute!(a), transmute!(SHUFFLE_MASK))) }
    }
    #[cfg(not(all(target_feature = "ssse3", not(miri))))]
    {
        a.swap_bytes()
    }
}

#[allow(unused)] //not used by fallback
#[inline(always)]
pub(crate) fn add_and_shuffle(a: u128, b: u128) -> u128 {
    let sum = add_by_64s(a.convert(), b.convert());
    shuffle(sum.convert())
}

#[allow(unused)] //not used by fallback
#[inline(always)]
pub(crate) fn shuffle_and_add(base: u128, to_add: u128) -> u128 {
    let shuffled: [u64; 2] = shuffle(base).convert();
    add_by_64s(shuffled, to_add.convert()).convert()
}

#[cfg(all(any(target_arch = "x86", target_arch = "x86_64"), target_feature = "sse2", not(miri)))]
#[inline(always)]
pub(crate) fn add_by_64s(a: [u64; 2], b: [u64; 2]) -> [u64; 2] {
    unsafe {
        #[cfg(target_arch = "x86")]
        use core::arch::x86::*;
        #[cfg(target_arch = "x86_64")]
        use core::arch::x86_64::*;
        transmute!(_mm_add_epi64(transmute!(a), transmute!(b)))
    }
}

#[cfg(not(all(any(target_arch = "x86", target_arch = "x86_64"), target_feature = "sse2", not(miri))))]
#[inline(always)]
pub(crate) fn add_by_64s(a: [u64; 2], b: [u64; 2]) -> [u64; 2] {
    [a[0].wrapping_add(b[0]), a[1].wrapping_add(b[1])]
}

#[cfg(all(any(target_arch = "x86", target_arch = "x86_64"), target_feature = "aes", not(miri)))]
#[allow(unused)]
#[inline(always)]
pub(crate) fn aesenc(value: u128, xor: u128) -> u128 {
    #[cfg(target_arch = "x86")]
    use core::arch::x86::*;
    #[cfg(target_arch = "x86_64")]
    use core::arch::x86_64::*;
    unsafe {
        let value = transmute!(value);
        transmute!(_mm_aesenc_si128(value, transmute!(xor)))
    }
}

#[cfg(any(
    all(feature = "nightly-arm-aes", target_arch = "aarch64", target_feature = "aes", not(miri)),
    all(feature = "nightly-arm-aes", target_arch = "arm", target_feature = "aes", not(miri)),
))]
#[allow(unused)]
#[inline(always)]
pub(crate) fn aesenc(value: u128, xor: u128) -> u128 {
    #[cfg(target_arch = "aarch64")]
    use core::arch::aarch64::*;
    #[cfg(target_arch = "arm")]
    use core::arch::arm::*;
    let res = unsafe { vaesmcq_u8(vaeseq_u8(transmute!(value), transmute!(0u128))) };
    let value: u128 = transmute!(res);
    xor ^ value
}

#[cfg(all(any(target_arch = "x86", target_arch = "x86_64"), target_feature = "aes", not(miri)))]
#[allow(unused)]
#[inline(always)]
pub(crate) fn aesdec(value: u128, xor: u128) -> u128 {
    #[cfg(target_arch = "x86")]
    use core::arch::x86::*;
    #[cfg(target_arch = "x86_64")]
    use core::arch::x86_64::*;
    unsafe {
        let value = transmute!(value);
        transmute!(_mm_aesdec_si128(value, transmute!(xor)))
    }
}

#[cfg(any(
    all(feature = "nightly-arm-aes", target_arch = "aarch64", target_feature = "aes", not(miri)),
    all(feature = "nightly-arm-aes", target_arch = "arm", target_feature = "aes", not(miri)),
))]
#[allow(unused)]
#[inline(always)]
pub(crate) fn aesdec(value: u128, xor: u128) -> u128 {
    #[cfg(target_arch = "aarch64")]
    use core::arch::aarch64::*;
    #[cfg(target_arch = "arm")]
    use core::arch::arm::*;
    let res = unsafe { vaesimcq_u8(vaesdq_u8(transmute!(value), transmute!(0u128))) };
    let value: u128 = transmute!(res);
    xor ^ value
}

#[allow(unused)]
#[inline(always)]
pub(crate) fn add_in_length(enc: &mut u128, len: u64) {
    #[cfg(all(target_arch = "x86_64", target_feature = "sse2", not(miri)))]
    {
        #[cfg(target_arch = "x86_64")]
        use core::arch::x86_64::*;

        unsafe {
            let enc = enc as *mut u128;
            let len = _mm_cvtsi64_si128(len as i64);
            let data = _mm_loadu_si128(enc.cast());
            let sum = _mm_add_epi64(data, len);
            _mm_storeu_si128(enc.cast(), sum);
        }
    }
    #[cfg(not(all(target_arch = "x86_64", target_feature = "sse2", not(miri))))]
    {
        let mut t: [u64; 2] = enc.convert();
        t[0] = t[0].wrapping_add(len);
        *enc = t.convert();
    }
}

#[cfg(test)]
mod test {
    use super::*;

    // This is code to search for the shuffle constant
    //
    //thread_local! { static MASK: Cell<u128> = Cell::new(0); }
    //
    // fn shuffle(a: u128) -> u128 {
    //     use std::intrinsics::transmute;
    //     #[cfg(target_arch = "x86")]
    //     use core::arch::x86::*;
    //     #[cfg(target_arch = "x86_64")]
    //     use core::arch::x86_64::*;
    //     MASK.with(|mask| {
    //         unsafe { transmute!(_mm_shuffle_epi8(transmute!(a), transmute!(mask.get()))) }
    //     })
    // }
    //
    // #[test]
    // fn find_shuffle() {
    //     use rand::prelude::*;
    //     use SliceRandom;
    //     use std::panic;
    //     use std::io::Write;
    //
    //     let mut value: [u8; 16] = [0, 1, 2, 3, 4, 5, 6, 7, 8, 9, 10, 11, 12 ,13, 14, 15];
    //     let mut rand = thread_rng();
    //     let mut successful_list = HashMap::new();
    //     for _attempt in 0..10000000 {
    //         rand.shuffle(&mut value);
    //         let test_val = value.convert();
    //         MASK.with(|mask| {
    //             mask.set(test_val);
    //         });
    //         if let Ok(successful) = panic::catch_unwind(|| {
    //             test_shuffle_does_not_collide_with_aes();
    //             test_shuffle_moves_high_bits();
    //             test_shuffle_moves_every_value();
    //             //test_shuffle_does_not_loop();
    //             value
    //         }) {
    //             let successful: u128 = successful.convert();
    //             successful_list.insert(successful, iters_before_loop());
    //         }
    //     }
    //     let write_file = File::create("/tmp/output").unwrap();
    //     let mut writer = BufWriter::new(&write_file);
    //
    //     for success in successful_list {
    //         writeln!(writer, "Found successful: {:x?} - {:?}", success.0, success.1);
    //     }
    // }
    //
    // fn iters_before_loop() -> u32 {
    //     let numbered = 0x00112233_44556677_8899AABB_CCDDEEFF;
    //     let mut shuffled = shuffle(numbered);
    //     let mut count = 0;
    //     loop {
    //         // println!("{:>16x}", shuffled);
    //         if numbered == shuffled {
    //             break;
    //         }
    //         count += 1;
    //         shuffled = shuffle(shuffled);
    //     }
    //     count
    // }

    #[cfg(all(
        any(target_arch = "x86", target_arch = "x86_64"),
        target_feature = "ssse3",
        target_feature = "aes",
        not(miri)
    ))]
    #[test]
    fn test_shuffle_does_not_collide_with_aes() {
        let mut value: [u8; 16] = [0; 16];
        let zero_mask_enc = aesenc(0, 0);
        let zero_mask_dec = aesdec(0, 0);
        for index in 0..16 {
            value[index] = 1;
            let excluded_positions_enc: [u8; 16] = aesenc(value.convert(), zero_mask_enc).convert();
            let excluded_positions_dec: [u8; 16] = aesdec(value.convert(), zero_mask_dec).convert();
            let actual_location: [u8; 16] = shuffle(value.convert()).convert();
            for pos in 0..16 {
                if actual_location[pos] != 0 {
                    assert_eq!(
                        0, excluded_positions_enc[pos],
                        "Forward Overlap between {:?} and {:?} at {}",
                        excluded_positions_enc, actual_location, index
                    );
                    assert_eq!(
                        0, excluded_positions_dec[pos],
                        "Reverse Overlap between {:?} and {:?} at {}",
                        excluded_positions_dec, actual_location, index
                    );
                }
            }
            value[index] = 0;
        }
    }

    #[test]
    fn test_shuffle_contains_each_value() {
        let value: [u8; 16] = 0x00010203_04050607_08090A0B_0C0D0E0F_u128.convert();
        let shuffled: [u8; 16] = shuffle(value.convert()).convert();
        for index in 0..16_u8 {
            assert!(shuffled.contains(&index), "Value is missing {}", index);
        }
    }

    #[test]
    fn test_shuffle_moves_every_value() {
        let mut value: [u8; 16] = [0; 16];
        for index in 0..16 {
            value[index] = 1;
            let shuffled: [u8; 16] = shuffle(value.convert()).convert();
            assert_eq!(0, shuffled[index], "Value is not moved {}", index);
            value[index] = 0;
        }
    }

    #[test]
    fn test_shuffle_moves_high_bits() {
        assert!(
            shuffle(1) > (1_u128 << 80),
            "Low bits must be moved to other half {:?} -> {:?}",
            0,
            shuffle(1)
        );

        assert!(
            shuffle(1_u128 << 58) >= (1_u128 << 64),
            "High bits must be moved to other half {:?} -> {:?}",
            7,
            shuffle(1_u128 << 58)
        );
        assert!(
            shuffle(1_u128 << 58) < (1_u128 << 112),
            "High bits must not remain high {:?} -> {:?}",
            7,
            shuffle(1_u128 << 58)
        );
        assert!(
            shuffle(1_u128 << 64) < (1_u128 << 64),
            "Low bits must be moved to other half {:?} -> {:?}",
            8,
            shuffle(1_u128 << 64)
        );
        assert!(
            shuffle(1_u128 << 64) >= (1_u128 << 16),
            "Low bits must not remain low {:?} -> {:?}",
            8,
            shuffle(1_u128 << 64)
        );

        assert!(
            shuffle(1_u128 << 120) < (1_u128 << 50),
            "High bits must be moved to low half {:?} -> {:?}",
            15,
            shuffle(1_u128 << 120)
        );
    }

    #[cfg(all(
        any(target_arch = "x86", target_arch = "x86_64"),
        target_feature = "ssse3",
        not(miri)
    ))]
    #[test]
    fn test_shuffle_does_not_loop() {
        let numbered = 0x00112233_44556677_8899AABB_CCDDEEFF;
        let mut shuffled = shuffle(numbered);
        for count in 0..100 {
            // println!("{:>16x}", shuffled);
            assert_ne!(numbered, shuffled, "Equal after {} vs {:x}", count, shuffled);
            shuffled = shuffle(shuffled);
        }
    }

    #[test]
    fn test_add_length() {
        let enc : [u64; 2] = [50, u64::MAX];
        let mut enc : u128 = enc.convert();
        add_in_length(&mut enc, u64::MAX);
        let enc : [u64; 2] = enc.convert();
        assert_eq!(enc[1], u64::MAX);
        assert_eq!(enc[0], 49);
    }
}
