pub(crate) trait Convert<To> {
    fn convert(self) -> To;
}

macro_rules! convert {
    ($a:ty, $b:ty) => {
        impl Convert<$b> for $a {
            #[inline(always)]
            fn convert(self) -> $b {
                zerocopy::transmute!(self)
            }
        }
        impl Convert<$a> for $b {
            #[inline(always)]
            fn convert(self) -> $a {
                zerocopy::transmute!(self)
            }
        }
    };
}

macro_rules! convert_primitive_bytes {
    ($a:ty, $b:ty) => {
        impl Convert<$b> for $a {
            #[inline(always)]
            fn convert(self) -> $b {
                self.to_ne_bytes()
            }
        }
        impl Convert<$a> for $b {
            #[inline(always)]
            fn convert(self) -> $a {
                <$a>::from_ne_bytes(self)
            }
        }
    };
}

convert!([u128; 4], [u8; 64]);
convert!([u128; 2], [u64; 4]);
convert!([u128; 2], [u8; 32]);
convert!(u128, [u64; 2]);
convert_primitive_bytes!(u128, [u8; 16]);
convert!([u64; 2], [u32; 4]);
#[cfg(test)]
convert!([u64; 2], [u8; 16]);
convert_primitive_bytes!(u64, [u8; 8]);
convert_primitive_bytes!(u32, [u8; 4]);
convert_primitive_bytes!(u16, [u8; 2]);
convert!([[u64; 4]; 2], [u8; 64]);

macro_rules! as_array {
    ($input:expr, $len:expr) => {{
        {
            #[inline(always)]
            fn as_array<T>(slice: &[T]) -> &[T; $len] {
                core::convert::TryFrom::try_from(slice).unwrap()
            }
            as_array($input)
        }
    }};
}

pub(crate) trait ReadFromSlice {
    fn read_u16(&self) -> (u16, &[u8]);
    fn read_u32(&self) -> (u32, &[u8]);
    fn read_u64(&self) -> (u64, &[u8]);
    fn read_u128(&self) -> (u128, &[u8]);
    fn read_u128x2(&self) -> ([u128; 2], &[u8]);
    fn read_u128x4(&self) -> ([u128; 4], &[u8]);
    fn read_last_u16(&self) -> u16;
    fn read_last_u32(&self) -> u32;
    fn read_last_u64(&self) -> u64;
    fn read_last_u128(&self) -> u128;
    fn read_last_u128x2(&self) -> [u128; 2];
    fn read_last_u128x4(&self) -> [u128; 4];
}

impl ReadFromSlice for [u8] {
    #[inline(always)]
    fn read_u16(&self) -> (u16, &[u8]) {
        let (value, rest) = self.split_at(2);
        (as_array!(value, 2).convert(), rest)
    }

    #[inline(always)]
    fn read_u32(&self) -> (u32, &[u8]) {
        let (value, rest) = self.split_at(4);
        (as_array!(value, 4).convert(), rest)
    }

    #[inline(always)]
    fn read_u64(&self) -> (u64, &[u8]) {
        let (value, rest) = self.split_at(8);
        (as_array!(value, 8).convert(), rest)
    }

    #[inline(always)]
    fn read_u128(&self) -> (u128, &[u8]) {
        let (value, rest) = self.split_at(16);
        (as_array!(value, 16).convert(), rest)
    }

    #[inline(always)]
    fn read_u128x2(&self) -> ([u128; 2], &[u8]) {
        let (value, rest) = self.split_at(32);
        (as_array!(value, 32).convert(), rest)
    }

    #[inline(always)]
    fn read_u128x4(&self) -> ([u128; 4], &[u8]) {
        let (value, rest) = self.split_at(64);
        (as_array!(value, 64).convert(), rest)
    }

    #[inline(always)]
    fn read_last_u16(&self) -> u16 {
        let (_, value) = self.split_at(self.len() - 2);
        as_array!(value, 2).convert()
    }

    #[inline(always)]
    fn read_last_u32(&self) -> u32 {
        let (_, value) = self.split_at(self.len() - 4);
        as_array!(value, 4).convert()
    }

    #[inline(always)]
    fn read_last_u64(&self) -> u64 {
        let (_, value) = self.split_at(self.len() - 8);
        as_array!(value, 8).convert()
    }

    #[inline(always)]
    fn read_last_u128(&self) -> u128 {
        let (_, value) = self.split_at(self.len() - 16);
        as_array!(value, 16).convert()
    }

    #[inline(always)]
    fn read_last_u128x2(&self) -> [u128; 2] {
        let (_, value) = self.split_at(self.len() - 32);
        as_array!(value, 32).convert()
    }

    #[inline(always)]
    fn read_last_u128x4(&self) -> [u128; 4] {
        let (_, value) = self.split_at(self.len() - 64);
        as_array!(value, 64).convert()
    }
}
