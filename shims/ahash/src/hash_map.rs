use std::borrow::Borrow;
use std::collections::hash_map::{IntoKeys, IntoValues};
use std::collections::{hash_map, HashMap};
use std::fmt::{self, Debug};
use std::hash::{BuildHasher, Hash};
use std::iter::FromIterator;
use std::ops::{Deref, DerefMut, Index};
use std::panic::UnwindSafe;

#[cfg(feature = "serde")]
use serde::{
    de::{Deserialize, Deserializer},
    ser::{Serialize, Serializer},
};

use crate::RandomState;

/// A [`HashMap`](std::collections::HashMap) using [`RandomState`](crate::RandomState) to hash the items.
/// (Requires the `std` feature to be enabled.)
#[derive(Clone)]
pub struct AHashMap<K, V, S = crate::RandomState>(HashMap<K, V, S>);

impl<K, V> From<HashMap<K, V, crate::RandomState>> for AHashMap<K, V> {
    fn from(item: HashMap<K, V, crate::RandomState>) -> Self {
        AHashMap(item)
    }
}

impl<K, V, const N: usize> From<[(K, V); N]> for AHashMap<K, V>
where
    K: Eq + Hash,
{
    /// # Examples
    ///
    /// ```
    /// use ahash::AHashMap;
    ///
    /// let map1 = AHashMap::from([(1, 2), (3, 4)]);
    /// let map2: AHashMap<_, _> = [(1, 2), (3, 4)].into();
    /// assert_eq!(map1, map2);
    /// ```
    fn from(arr: [(K, V); N]) -> Self {
        Self::from_iter(arr)
    }
}

impl<K, V> Into<HashMap<K, V, crate::RandomState>> for AHashMap<K, V> {
    fn into(self) -> HashMap<K, V, crate::RandomState> {
        self.0
    }
}

impl<K, V> AHashMap<K, V, RandomState> {
    /// This creates a hashmap using [RandomState::new] which obtains its keys from [RandomSource].
    /// See the documentation in [RandomSource] for notes about key strength.
    pub fn new() -> Self {
        AHashMap(HashMap::with_hasher(RandomState::new()))
    }

    /// This creates a hashmap with the specified capacity using [RandomState::new].
    /// See the documentation in [RandomSource] for notes about key strength.
    pub fn with_capacity(capacity: usize) -> Self {
        AHashMap(HashMap::with_capacity_and_hasher(capacity, RandomState::new()))
    }
}

impl<K, V, S> AHashMap<K, V, S>
where
    S: BuildHasher,
{
    pub fn with_hasher(hash_builder: S) -> Self {
        AHashMap(HashMap::with_hasher(hash_builder))
    }

    pub fn with_capacity_and_hasher(capacity: usize, hash_builder: S) -> Self {
        AHashMap(HashMap::with_capacity_and_hasher(capacity, hash_builder))
    }
}

impl<K, V, S> AHashMap<K, V, S>
where
    K: Hash + Eq,
    S: BuildHasher,
{
    /// Returns a reference to the value corresponding to the key.
    ///
    /// The key may be any borrowed form of the map's key type, but
    /// [`Hash`] and [`Eq`] on the borrowed form *must* match those for
    /// the key type.
    ///
    /// # Examples
    ///
    /// ```
    /// use std::collections::HashMap;
    ///
    /// let mut map = HashMap::new();
    /// map.insert(1, "a");
    /// assert_eq!(map.get(&1), Some(&"a"));
    /// assert_eq!(map.get(&2), None);
    /// ```
    #[inline]
    pub fn get<Q: ?Sized>(&self, k: &Q) -> Option<&V>
    where
        K: Borrow<Q>,
        Q: Hash + Eq,
    {
        self.0.get(k)
    }

    /// Returns the key-value pair corresponding to the supplied key.
    ///
    /// The supplied key may be any borrowed form of the map's key type, but
    /// [`Hash`] and [`Eq`] on the borrowed form *must* match those for
    /// the key type.
    ///
    /// # Examples
    ///
    /// ```
    /// use std::collections::HashMap;
    ///
    /// let mut map = HashMap::new();
    /// map.insert(1, "a");
    /// assert_eq!(map.get_key_value(&1), Some((&1, &"a")));
    /// assert_eq!(map.get_key_value(&2), None);
    /// ```
    #[inline]
    pub fn get_key_value<Q: ?Sized>(&self, k: &Q) -> Option<(&K, &V)>
    where
        K: Borrow<Q>,
        Q: Hash + Eq,
    {
        self.0.get_key_value(k)
    }

    /// Returns a mutable reference to the value corresponding to the key.
    ///
    /// The key may be any borrowed form of the map's key type, but
    /// [`Hash`] and [`Eq`] on the borrowed form *must* match those for
    /// the key type.
    ///
    /// # Examples
    ///
    /// ```
    /// use std::collections::HashMap;
    ///
    /// let mut map = HashMap::new();
    /// map.insert(1, "a");
    /// if let Some(x) = map.get_mut(&1) {
    ///     *x = "b";
    /// }
    /// assert_eq!(map[&1], "b");
    /// ```
    #[inline]
    pub fn get_mut<Q: ?Sized>(&mut self, k: &Q) -> Option<&mut V>
    where
        K: Borrow<Q>,
        Q: Hash + Eq,
    {
        self.0.get_mut(k)
    }

    /// Inserts a key-value pair into the map.
    ///
    /// If the map did not have this key present, [`None`] is returned.
    ///
    /// If the map did have this key present, the value is updated, and the old
    /// value is returned. The key is not updated, though; this matters for
    /// types that can be `==` without being identical. See the [module-level
    /// documentation] for more.
    ///
    /// # Examples
    ///
    /// ```
    /// use std::collections::HashMap;
    ///
    /// let mut map = HashMap::new();
    /// assert_eq!(map.insert(37, "a"), None);
    /// assert_eq!(map.is_empty(), false);
    ///
    /// map.insert(37, "b");
    /// assert_eq!(map.insert(37, "c"), Some("b"));
    /// assert_eq!(map[&37], "c");
    /// ```
    #[inline]
    pub fn insert(&mut self, k: K, v: V) -> Option<V> {
        self.0.insert(k, v)
    }

    /// Creates a consuming iterator visiting all the keys in arbitrary order.
    /// The map cannot be used after calling this.
    /// The iterator element type is `K`.
    ///
    /// # Examples
    ///
    /// ```
    /// use std::collections::HashMap;
    ///
    /// let map = HashMap::from([
    ///     ("a", 1),
    ///     ("b", 2),
    ///     ("c", 3),
    /// ]);
    ///
    /// let mut vec: Vec<&str> = map.into_keys().collect();
    /// // The `IntoKeys` iterator produces keys in arbitrary order, so the
    /// // keys must be sorted to test them against a sorted array.
    /// vec.sort_unstable();
    /// assert_eq!(vec, ["a", "b", "c"]);
    /// ```
    ///
    /// # Performance
    ///
    /// In the current implementation, iterating over keys takes O(capacity) time
    /// instead of O(len) because it internally visits empty buckets too.
    #[inline]
    pub fn into_keys(self) -> IntoKeys<K, V> {
        self.0.into_keys()
    }

    /// Creates a consuming iterator visiting all the values in arbitrary order.
    /// The map cannot be used after calling this.
    /// The iterator element type is `V`.
    ///
    /// # Examples
    ///
    /// ```
    /// use std::collections::HashMap;
    ///
    /// let map = HashMap::from([
    ///     ("a", 1),
    ///     ("b", 2),
    ///     ("c", 3),
    /// ]);
    ///
    /// let mut vec: Vec<i32> = map.into_values().collect();
    /// // The `IntoValues` iterator produces values in arbitrary order, so
    /// // the values must be sorted to test them against a sorted array.
    /// vec.sort_unstable();
    /// assert_eq!(vec, [1, 2, 3]);
    /// ```
    ///
    /// # Performance
    ///
    /// In the current implementation, iterating over values takes O(capacity) time
    /// instead of O(len) because it internally visits empty buckets too.
    #[inline]
    pub fn into_values(self) -> IntoValues<K, V> {
        self.0.into_values()
    }

    /// Removes a key from the map, returning the value at the key if the key
    /// was previously in the map.
    ///
    /// The key may be any borrowed form of the map's key type, but
    /// [`Hash`] and [`Eq`] on the borrowed form *must* match those for
    /// the key type.
    ///
    /// # Examples
    ///
    /// ```
    /// use std::collections::HashMap;
    ///
    /// let mut map = HashMap::new();
    /// map.insert(1, "a");
    /// assert_eq!(map.remove(&1), Some("a"));
    /// assert_eq!(map.remove(&1), None);
    /// ```
    #[inline]
    pub fn remove<Q: ?Sized>(&mut self, k: &Q) -> Option<V>
    where
        K: Borrow<Q>,
        Q: Hash + Eq,
    {
        self.0.remove(k)
    }
}

impl<K, V, S> Deref for AHashMap<K, V, S> {
    type Target = HashMap<K, V, S>;
    fn deref(&self) -> &Self::Target {
        &self.0
    }
}

impl<K, V, S> DerefMut for AHashMap<K, V, S> {
    fn deref_mut(&mut self) -> &mut Self::Target {
        &mut self.0
    }
}

impl<K, V, S> UnwindSafe for AHashMap<K, V, S>
where
    K: UnwindSafe,
    V: UnwindSafe,
{
}

impl<K, V, S> PartialEq for AHashMap<K, V, S>
where
    K: Eq + Hash,
    V: PartialEq,
    S: BuildHasher,
{
    fn eq(&self, other: &AHashMap<K, V, S>) -> bool {
        self.0.eq(&other.0)
    }
}

impl<K, V, S> Eq for AHashMap<K, V, S>
where
    K: Eq + Hash,
    V: Eq,
    S: BuildHasher,
{
}

impl<K, Q: ?Sized, V, S> Index<&Q> for AHashMap<K, V, S>
where
    K: Eq + Hash + Borrow<Q>,
    Q: Eq + Hash,
    S: BuildHasher,
{
    type Output = V;

    /// Returns a reference to the value corresponding to the supplied key.
    ///
    /// # Panics
    ///
    /// Panics if the key is not present in the `HashMap`.
    #[inline]
    fn index(&self, key: &Q) -> &V {
        self.0.index(key)
    }
}

impl<K, V, S> Debug for AHashMap<K, V, S>
where
    K: Debug,
    V: Debug,
    S: BuildHasher,
{
    fn fmt(&self, fmt: &mut fmt::Formatter) -> fmt::Result {
        self.0.fmt(fmt)
    }
}

impl<K, V> FromIterator<(K, V)> for AHashMap<K, V, RandomState>
where
    K: Eq + Hash,
{
    /// This creates a hashmap from the provided iterator using [RandomState::new].
    /// See the documentation in [RandomSource] for notes about key strength.
    fn from_iter<T: IntoIterator<Item = (K, V)>>(iter: T) -> Self {
        let mut inner = HashMap::with_hasher(RandomState::new());
        inner.extend(iter);
        AHashMap(inner)
    }
}

impl<'a, K, V, S> IntoIterator for &'a AHashMap<K, V, S> {
    type Item = (&'a K, &'a V);
    type IntoIter = hash_map::Iter<'a, K, V>;
    fn into_iter(self) -> Self::IntoIter {
        (&self.0).iter()
    }
}

impl<'a, K, V, S> IntoIterator for &'a mut AHashMap<K, V, S> {
    type Item = (&'a K, &'a mut V);
    type IntoIter = hash_map::IterMut<'a, K, V>;
    fn into_iter(self) -> Self::IntoIter {
        (&mut self.0).iter_mut()
    }
}

impl<K, V, S> IntoIterator for AHashMap<K, V, S> {
    type Item = (K, V);
    type IntoIter = hash_map::IntoIter<K, V>;
    fn into_iter(self) -> Self::IntoIter {
        self.0.into_iter()
    }
}

impl<K, V, S> Extend<(K, V)> for AHashMap<K, V, S>
where
    K: Eq + Hash,
    S: BuildHasher,
{
    #[inline]
    fn extend<T: IntoIterator<Item = (K, V)>>(&mut self, iter: T) {
        self.0.extend(iter)
    }
}

impl<'a, K, V, S> Extend<(&'a K, &'a V)> for AHashMap<K, V, S>
where
    K: Eq + Hash + Copy + 'a,
    V: Copy + 'a,
    S: BuildHasher,
{
    #[inline]
    fn extend<T: IntoIterator<Item = (&'a K, &'a V)>>(&mut self, iter: T) {
        self.0.extend(iter)
    }
}

/// NOTE: For safety this trait impl is only available if either of the flags `runtime-rng` (on by default) or
/// `compile-time-rng` are enabled. This is to prevent weakly keyed maps from being accidentally created. Instead one of
/// constructors for [RandomState] must be used.
#[cfg(any(feature = "compile-time-rng", feature = "runtime-rng", feature = "no-rng"))]
impl<K, V> Default for AHashMap<K, V, RandomState> {
    #[inline]
    fn default() -> AHashMap<K, V, RandomState> {
        AHashMap(HashMap::default())
    }
}

#[cfg(feature = "serde")]
impl<K, V> Serialize for AHashMap<K, V>
where
    K: Serialize + Eq + Hash,
    V: Serialize,
{
    fn serialize<S: Serializer>(&self, serializer: S) -> Result<S::Ok, S::Error> {
        self.deref().serialize(serializer)
    }
}

#[cfg(feature = "serde")]
impl<'de, K, V> Deserialize<'de> for AHashMap<K, V>
where
    K: Deserialize<'de> + Eq + Hash,
    V: Deserialize<'de>,
{
    fn deserialize<D: Deserializer<'de>>(deserializer: D) -> Result<Self, D::Error> {
        let hash_map = HashMap::deserialize(deserializer);
        hash_map.map(|hash_map| Self(hash_map))
    }

    fn deserialize_in_place<D: Deserializer<'de>>(deserializer: D, place: &mut Self) -> Result<(), D::Error> {
        use serde::de::{MapAccess, Visitor};

        struct MapInPlaceVisitor<'a, K: 'a, V: 'a>(&'a mut AHashMap<K, V>);

        impl<'a, 'de, K, V> Visitor<'de> for MapInPlaceVisitor<'a, K, V>
        where
            K: Deserialize<'de> + Eq + Hash,
            V: Deserialize<'de>,
        {
            type Value = ();

            fn expecting(&self, formatter: &mut fmt::Formatter) -> fmt::Result {
                formatter.write_str("a map")
            }

            fn visit_map<A>(self, mut map: A) -> Result<Self::Value, A::Error>
            where
                A: MapAccess<'de>,
            {
                self.0.clear();
                self.0.reserve(map.size_hint().unwrap_or(0).min(4096));

                while let Some((key, value)) = map.next_entry()? {
                    self.0.insert(key, value);
                }

                Ok(())
            }
        }

        deserializer.deserialize_map(MapInPlaceVisitor(place))
    }
}

#[cfg(test)]
mod test {
    use super::*;
    #[test]
    fn test_borrow() {
        let mut map: AHashMap<String, String> = AHashMap::new();
        map.insert("foo".to_string(), "Bar".to_string());
        map.insert("Bar".to_string(), map.get("foo").unwrap().to_owned());
    }

    #[cfg(feature = "serde")]
    #[test]
    fn test_serde() {
        let mut map = AHashMap::new();
        map.insert("for".to_string(), 0);
        map.insert("bar".to_string(), 1);
        let mut serialization = serde_json::to_string(&map).unwrap();
        let mut deserialization: AHashMap<String, u64> = serde_json::from_str(&serialization).unwrap();
        assert_eq!(deserialization, map);

        map.insert("baz".to_string(), 2);
        serialization = serde_json::to_string(&map).unwrap();
        let mut deserializer = serde_json::Deserializer::from_str(&serialization);
        AHashMap::deserialize_in_place(&mut deserializer, &mut deserialization).unwrap();
        assert_eq!(deserialization, map);
    }
}
