use crate::convert::*;
use crate::operations::folded_multiply;
use crate::operations::read_small;
use crate::operations::MULTIPLE;
use crate::random_state::PI;
use crate::RandomState;
use core::hash::Hasher;

const ROT: u32 = 23; //17

/// A `Hasher` for hashing an arbitrary stream of bytes.
///
/// Instances of [`AHasher`] represent state that is updated while hashing data.
///
/// Each method updates the internal state based on the new data provided. Once
/// all of the data has been provided, the resulting hash can be obtained by calling
/// `finish()`
///
/// [Clone] is also provided in case you wish to calculate hashes for two different items that
/// start with the same data.
///
#[derive(Debug, Clone)]
pub struct AHasher {
    buffer: u64,
    pad: u64,
    extra_keys: [u64; 2],
}

impl AHasher {
    /// Creates a new hasher keyed to the provided key.
    #[inline]
    #[allow(dead_code)] // Is not called if non-fallback hash is used.
    pub(crate) fn new_with_keys(key1: u128, key2: u128) -> AHasher {
        let pi: [u128; 2] = PI.convert();
        let key1: [u64; 2] = (key1 ^ pi[0]).convert();
        let key2: [u64; 2] = (key2 ^ pi[1]).convert();
        AHasher {
            buffer: key1[0],
            pad: key1[1],
            extra_keys: key2,
        }
    }

    #[allow(unused)] // False positive
    pub(crate) fn test_with_keys(key1: u128, key2: u128) -> Self {
        let key1: [u64; 2] = key1.convert();
        let key2: [u64; 2] = key2.convert();
        Self {
            buffer: key1[0],
            pad: key1[1],
            extra_keys: key2,
        }
    }

    #[inline]
    #[allow(dead_code)] // Is not called if non-fallback hash is used.
    pub(crate) fn from_random_state(rand_state: &RandomState) -> AHasher {
        AHasher {
            buffer: rand_state.k1,
            pad: rand_state.k0,
            extra_keys: [rand_state.k2, rand_state.k3],
        }
    }

    /// This update function has the goal of updating the buffer with a single multiply
    /// FxHash does this but is vulnerable to attack. To avoid this input needs to be masked to with an
    /// unpredictable value. Other hashes such as murmurhash have taken this approach but were found vulnerable
    /// to attack. The attack was based on the idea of reversing the pre-mixing (Which is necessarily
    /// reversible otherwise bits would be lost) then placing a difference in the highest bit before the
    /// multiply used to mix the data. Because a multiply can never affect the bits to the right of it, a
    /// subsequent update that also differed in this bit could result in a predictable collision.
    ///
    /// This version avoids this vulnerability while still only using a single multiply. It takes advantage
    /// of the fact that when a 64 bit multiply is performed the upper 64 bits are usually computed and thrown
    /// away. Instead it creates two 128 bit values where the upper 64 bits are zeros and multiplies them.
    /// (The compiler is smart enough to turn this into a 64 bit multiplication in the assembly)
    /// Then the upper bits are xored with the lower bits to produce a single 64 bit result.
    ///
    /// To understand why this is a good scrambling function it helps to understand multiply-with-carry PRNGs:
    /// https://en.wikipedia.org/wiki/Multiply-with-carry_pseudorandom_number_generator
    /// If the multiple is chosen well, this creates a long period, decent quality PRNG.
    /// Notice that this function is equivalent to this except the `buffer`/`state` is being xored with each
    /// new block of data. In the event that data is all zeros, it is exactly equivalent to a MWC PRNG.
    ///
    /// This is impervious to attack because every bit buffer at the end is dependent on every bit in
    /// `new_data ^ buffer`. For example suppose two inputs differed in only the 5th bit. Then when the
    /// multiplication is performed the `result` will differ in bits 5-69. More specifically it will differ by
    /// 2^5 * MULTIPLE. However in the next step bits 65-128 are turned into a separate 64 bit value. So the
    /// differing bits will be in the lower 6 bits of this value. The two intermediate values that differ in
    /// bits 5-63 and in bits 0-5 respectively get added together. Producing an output that differs in every
    /// bit. The addition carries in the multiplication and at the end additionally mean that the even if an
    /// attacker somehow knew part of (but not all) the contents of the buffer before hand,
    /// they would not be able to predict any of the bits in the buffer at the end.
    #[inline(always)]
    fn update(&mut self, new_data: u64) {
        self.buffer = folded_multiply(new_data ^ self.buffer, MULTIPLE);
    }

    /// Similar to the above this function performs an update using a "folded multiply".
    /// However it takes in 128 bits of data instead of 64. Both halves must be masked.
    ///
    /// This makes it impossible for an attacker to place a single bit difference between
    /// two blocks so as to cancel each other.
    ///
    /// However this is not sufficient. to prevent (a,b) from hashing the same as (b,a) the buffer itself must
    /// be updated between calls in a way that does not commute. To achieve this XOR and Rotate are used.
    /// Add followed by xor is not the same as xor followed by add, and rotate ensures that the same out bits
    /// can't be changed by the same set of input bits. To cancel this sequence with subsequent input would require
    /// knowing the keys.
    #[inline(always)]
    fn large_update(&mut self, new_data: u128) {
        let block: [u64; 2] = new_data.convert();
        let combined = folded_multiply(block[0] ^ self.extra_keys[0], block[1] ^ self.extra_keys[1]);
        self.buffer = (self.buffer.wrapping_add(self.pad) ^ combined).rotate_left(ROT);
    }

    #[inline]
    #[cfg(specialize)]
    fn short_finish(&self) -> u64 {
        folded_multiply(self.buffer, self.pad)
    }
}

/// Provides [Hasher] methods to hash all of the primitive types.
///
/// [Hasher]: core::hash::Hasher
impl Hasher for AHasher {
    #[inline]
    fn write_u8(&mut self, i: u8) {
        self.update(i as u64);
    }

    #[inline]
    fn write_u16(&mut self, i: u16) {
        self.update(i as u64);
    }

    #[inline]
    fn write_u32(&mut self, i: u32) {
        self.update(i as u64);
    }

    #[inline]
    fn write_u64(&mut self, i: u64) {
        self.update(i as u64);
    }

    #[inline]
    fn write_u128(&mut self, i: u128) {
        self.large_update(i);
    }

    #[inline]
    #[cfg(any(
        target_pointer_width = "64",
        target_pointer_width = "32",
        target_pointer_width = "16"
    ))]
    fn write_usize(&mut self, i: usize) {
        self.write_u64(i as u64);
    }

    #[inline]
    #[cfg(target_pointer_width = "128")]
    fn write_usize(&mut self, i: usize) {
        self.write_u128(i as u128);
    }

    #[inline]
    #[allow(clippy::collapsible_if)]
    fn write(&mut self, input: &[u8]) {
        let mut data = input;
        let length = data.len() as u64;
        //Needs to be an add rather than an xor because otherwise it could be canceled with carefully formed input.
        self.buffer = self.buffer.wrapping_add(length).wrapping_mul(MULTIPLE);
        //A 'binary search' on sizes reduces the number of comparisons.
        if data.len() > 8 {
            if data.len() > 16 {
                let tail = data.read_last_u128();
                self.large_update(tail);
                while data.len() > 16 {
                    let (block, rest) = data.read_u128();
                    self.large_update(block);
                    data = rest;
                }
            } else {
                self.large_update([data.read_u64().0, data.read_last_u64()].convert());
            }
        } else {
            let value = read_small(data);
            self.large_update(value.convert());
        }
    }

    #[inline]
    fn finish(&self) -> u64 {
        let rot = (self.buffer & 63) as u32;
        folded_multiply(self.buffer, self.pad).rotate_left(rot)
    }
}

#[cfg(specialize)]
pub(crate) struct AHasherU64 {
    pub(crate) buffer: u64,
    pub(crate) pad: u64,
}

/// A specialized hasher for only primitives under 64 bits.
#[cfg(specialize)]
impl Hasher for AHasherU64 {
    #[inline]
    fn finish(&self) -> u64 {
        folded_multiply(self.buffer, self.pad)
        //self.buffer
    }

    #[inline]
    fn write(&mut self, _bytes: &[u8]) {
        unreachable!("Specialized hasher was called with a different type of object")
    }

    #[inline]
    fn write_u8(&mut self, i: u8) {
        self.write_u64(i as u64);
    }

    #[inline]
    fn write_u16(&mut self, i: u16) {
        self.write_u64(i as u64);
    }

    #[inline]
    fn write_u32(&mut self, i: u32) {
        self.write_u64(i as u64);
    }

    #[inline]
    fn write_u64(&mut self, i: u64) {
        self.buffer = folded_multiply(i ^ self.buffer, MULTIPLE);
    }

    #[inline]
    fn write_u128(&mut self, _i: u128) {
        unreachable!("Specialized hasher was called with a different type of object")
    }

    #[inline]
    fn write_usize(&mut self, _i: usize) {
        unreachable!("Specialized hasher was called with a different type of object")
    }
}

#[cfg(specialize)]
pub(crate) struct AHasherFixed(pub AHasher);

/// A specialized hasher for fixed size primitives larger than 64 bits.
#[cfg(specialize)]
impl Hasher for AHasherFixed {
    #[inline]
    fn finish(&self) -> u64 {
        self.0.short_finish()
    }

    #[inline]
    fn write(&mut self, bytes: &[u8]) {
        self.0.write(bytes)
    }

    #[inline]
    fn write_u8(&mut self, i: u8) {
        self.write_u64(i as u64);
    }

    #[inline]
    fn write_u16(&mut self, i: u16) {
        self.write_u64(i as u64);
    }

    #[inline]
    fn write_u32(&mut self, i: u32) {
        self.write_u64(i as u64);
    }

    #[inline]
    fn write_u64(&mut self, i: u64) {
        self.0.write_u64(i);
    }

    #[inline]
    fn write_u128(&mut self, i: u128) {
        self.0.write_u128(i);
    }

    #[inline]
    fn write_usize(&mut self, i: usize) {
        self.0.write_usize(i);
    }
}

#[cfg(specialize)]
pub(crate) struct AHasherStr(pub AHasher);

/// A specialized hasher for a single string
/// Note that the other types don't panic because the hash impl for String tacks on an unneeded call. (As does vec)
#[cfg(specialize)]
impl Hasher for AHasherStr {
    #[inline]
    fn finish(&self) -> u64 {
        self.0.finish()
    }

    #[inline]
    fn write(&mut self, bytes: &[u8]) {
        if bytes.len() > 8 {
            self.0.write(bytes)
        } else {
            let value = read_small(bytes);
            self.0.buffer = folded_multiply(value[0] ^ self.0.buffer, value[1] ^ self.0.extra_keys[1]);
            self.0.pad = self.0.pad.wrapping_add(bytes.len() as u64);
        }
    }

    #[inline]
    fn write_u8(&mut self, _i: u8) {}

    #[inline]
    fn write_u16(&mut self, _i: u16) {}

    #[inline]
    fn write_u32(&mut self, _i: u32) {}

    #[inline]
    fn write_u64(&mut self, _i: u64) {}

    #[inline]
    fn write_u128(&mut self, _i: u128) {}

    #[inline]
    fn write_usize(&mut self, _i: usize) {}
}

#[cfg(test)]
mod tests {
    use crate::fallback_hash::*;

    #[test]
    fn test_hash() {
        let mut hasher = AHasher::new_with_keys(0, 0);
        let value: u64 = 1 << 32;
        hasher.update(value);
        let result = hasher.buffer;
        let mut hasher = AHasher::new_with_keys(0, 0);
        let value2: u64 = 1;
        hasher.update(value2);
        let result2 = hasher.buffer;
        let result: [u8; 8] = result.convert();
        let result2: [u8; 8] = result2.convert();
        assert_ne!(hex::encode(result), hex::encode(result2));
    }
}
