use crate::RandomState;
use core::hash::BuildHasher;
use core::hash::Hash;
use core::hash::Hasher;

#[cfg(not(feature = "std"))]
extern crate alloc;
#[cfg(feature = "std")]
extern crate std as alloc;

#[cfg(specialize)]
use alloc::string::String;
#[cfg(specialize)]
use alloc::vec::Vec;

/// Provides a way to get an optimized hasher for a given data type.
/// Rather than using a Hasher generically which can hash any value, this provides a way to get a specialized hash
/// for a specific type. So this may be faster for primitive types.
pub(crate) trait CallHasher {
    fn get_hash<H: Hash + ?Sized>(value: &H, random_state: &RandomState) -> u64;
}

#[cfg(not(specialize))]
impl<T> CallHasher for T
where
    T: Hash + ?Sized,
{
    #[inline]
    fn get_hash<H: Hash + ?Sized>(value: &H, random_state: &RandomState) -> u64 {
        let mut hasher = random_state.build_hasher();
        value.hash(&mut hasher);
        hasher.finish()
    }
}

#[cfg(specialize)]
impl<T> CallHasher for T
where
    T: Hash + ?Sized,
{
    #[inline]
    default fn get_hash<H: Hash + ?Sized>(value: &H, random_state: &RandomState) -> u64 {
        let mut hasher = random_state.build_hasher();
        value.hash(&mut hasher);
        hasher.finish()
    }
}

macro_rules! call_hasher_impl_u64 {
    ($typ:ty) => {
        #[cfg(specialize)]
        impl CallHasher for $typ {
            #[inline]
            fn get_hash<H: Hash + ?Sized>(value: &H, random_state: &RandomState) -> u64 {
                random_state.hash_as_u64(value)
            }
        }
    };
}
call_hasher_impl_u64!(u8);
call_hasher_impl_u64!(u16);
call_hasher_impl_u64!(u32);
call_hasher_impl_u64!(u64);
call_hasher_impl_u64!(i8);
call_hasher_impl_u64!(i16);
call_hasher_impl_u64!(i32);
call_hasher_impl_u64!(i64);
call_hasher_impl_u64!(&u8);
call_hasher_impl_u64!(&u16);
call_hasher_impl_u64!(&u32);
call_hasher_impl_u64!(&u64);
call_hasher_impl_u64!(&i8);
call_hasher_impl_u64!(&i16);
call_hasher_impl_u64!(&i32);
call_hasher_impl_u64!(&i64);

macro_rules! call_hasher_impl_fixed_length{
    ($typ:ty) => {
        #[cfg(specialize)]
        impl CallHasher for $typ {
            #[inline]
            fn get_hash<H: Hash + ?Sized>(value: &H, random_state: &RandomState) -> u64 {
                random_state.hash_as_fixed_length(value)
            }
        }
    };
}

call_hasher_impl_fixed_length!(u128);
call_hasher_impl_fixed_length!(i128);
call_hasher_impl_fixed_length!(usize);
call_hasher_impl_fixed_length!(isize);
call_hasher_impl_fixed_length!(&u128);
call_hasher_impl_fixed_length!(&i128);
call_hasher_impl_fixed_length!(&usize);
call_hasher_impl_fixed_length!(&isize);

#[cfg(specialize)]
impl CallHasher for [u8] {
    #[inline]
    fn get_hash<H: Hash + ?Sized>(value: &H, random_state: &RandomState) -> u64 {
        random_state.hash_as_str(value)
    }
}

#[cfg(specialize)]
impl CallHasher for Vec<u8> {
    #[inline]
    fn get_hash<H: Hash + ?Sized>(value: &H, random_state: &RandomState) -> u64 {
        random_state.hash_as_str(value)
    }
}

#[cfg(specialize)]
impl CallHasher for str {
    #[inline]
    fn get_hash<H: Hash + ?Sized>(value: &H, random_state: &RandomState) -> u64 {
        random_state.hash_as_str(value)
    }
}

#[cfg(all(specialize))]
impl CallHasher for String {
    #[inline]
    fn get_hash<H: Hash + ?Sized>(value: &H, random_state: &RandomState) -> u64 {
        random_state.hash_as_str(value)
    }
}

#[cfg(test)]
mod test {
    use super::*;
    use crate::*;

    #[test]
    #[cfg(specialize)]
    pub fn test_specialized_invoked() {
        let build_hasher = RandomState::with_seeds(1, 2, 3, 4);
        let shortened = u64::get_hash(&0, &build_hasher);
        let mut hasher = AHasher::new_with_keys(1, 2);
        0_u64.hash(&mut hasher);
        assert_ne!(hasher.finish(), shortened);
    }

    /// Tests that some non-trivial transformation takes place.
    #[test]
    pub fn test_input_processed() {
        let build_hasher = RandomState::with_seeds(2, 2, 2, 2);
        assert_ne!(0, u64::get_hash(&0, &build_hasher));
        assert_ne!(1, u64::get_hash(&0, &build_hasher));
        assert_ne!(2, u64::get_hash(&0, &build_hasher));
        assert_ne!(3, u64::get_hash(&0, &build_hasher));
        assert_ne!(4, u64::get_hash(&0, &build_hasher));
        assert_ne!(5, u64::get_hash(&0, &build_hasher));

        assert_ne!(0, u64::get_hash(&1, &build_hasher));
        assert_ne!(1, u64::get_hash(&1, &build_hasher));
        assert_ne!(2, u64::get_hash(&1, &build_hasher));
        assert_ne!(3, u64::get_hash(&1, &build_hasher));
        assert_ne!(4, u64::get_hash(&1, &build_hasher));
        assert_ne!(5, u64::get_hash(&1, &build_hasher));

        let xored = u64::get_hash(&0, &build_hasher) ^ u64::get_hash(&1, &build_hasher);
        assert_ne!(0, xored);
        assert_ne!(1, xored);
        assert_ne!(2, xored);
        assert_ne!(3, xored);
        assert_ne!(4, xored);
        assert_ne!(5, xored);
    }

    #[test]
    pub fn test_ref_independent() {
        let build_hasher = RandomState::with_seeds(1, 2, 3, 4);
        assert_eq!(u8::get_hash(&&1, &build_hasher), u8::get_hash(&1, &build_hasher));
        assert_eq!(u16::get_hash(&&2, &build_hasher), u16::get_hash(&2, &build_hasher));
        assert_eq!(u32::get_hash(&&3, &build_hasher), u32::get_hash(&3, &build_hasher));
        assert_eq!(u64::get_hash(&&4, &build_hasher), u64::get_hash(&4, &build_hasher));
        assert_eq!(u128::get_hash(&&5, &build_hasher), u128::get_hash(&5, &build_hasher));
        assert_eq!(
            str::get_hash(&"test", &build_hasher),
            str::get_hash("test", &build_hasher)
        );
        assert_eq!(
            str::get_hash(&"test", &build_hasher),
            String::get_hash(&"test".to_string(), &build_hasher)
        );
        #[cfg(specialize)]
        assert_eq!(
            str::get_hash(&"test", &build_hasher),
            <[u8]>::get_hash("test".as_bytes(), &build_hasher)
        );

        let build_hasher = RandomState::with_seeds(10, 20, 30, 40);
        assert_eq!(u8::get_hash(&&&1, &build_hasher), u8::get_hash(&1, &build_hasher));
        assert_eq!(u16::get_hash(&&&2, &build_hasher), u16::get_hash(&2, &build_hasher));
        assert_eq!(u32::get_hash(&&&3, &build_hasher), u32::get_hash(&3, &build_hasher));
        assert_eq!(u64::get_hash(&&&4, &build_hasher), u64::get_hash(&4, &build_hasher));
        assert_eq!(u128::get_hash(&&&5, &build_hasher), u128::get_hash(&5, &build_hasher));
        assert_eq!(
            str::get_hash(&&"test", &build_hasher),
            str::get_hash("test", &build_hasher)
        );
        assert_eq!(
            str::get_hash(&&"test", &build_hasher),
            String::get_hash(&"test".to_string(), &build_hasher)
        );
        #[cfg(specialize)]
        assert_eq!(
            str::get_hash(&&"test", &build_hasher),
            <[u8]>::get_hash(&"test".to_string().into_bytes(), &build_hasher)
        );
    }
}
