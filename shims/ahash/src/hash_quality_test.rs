use core::hash::{Hash, Hasher};
use std::collections::HashMap;

fn assert_sufficiently_different(a: u64, b: u64, tolerance: i32) {
    let (same_byte_count, same_nibble_count) = count_same_bytes_and_nibbles(a, b);
    assert!(same_byte_count <= tolerance, "{:x} vs {:x}: {:}", a, b, same_byte_count);
    assert!(
        same_nibble_count <= tolerance * 3,
        "{:x} vs {:x}: {:}",
        a,
        b,
        same_nibble_count
    );
    let flipped_bits = (a ^ b).count_ones();
    assert!(
        flipped_bits > 12 && flipped_bits < 52,
        "{:x} and {:x}: {:}",
        a,
        b,
        flipped_bits
    );
    for rotate in 0..64 {
        let flipped_bits2 = (a ^ (b.rotate_left(rotate))).count_ones();
        assert!(
            flipped_bits2 > 10 && flipped_bits2 < 54,
            "{:x} and {:x}: {:}",
            a,
            b.rotate_left(rotate),
            flipped_bits2
        );
    }
}

fn count_same_bytes_and_nibbles(a: u64, b: u64) -> (i32, i32) {
    let mut same_byte_count = 0;
    let mut same_nibble_count = 0;
    for byte in 0..8 {
        let ba = (a >> (8 * byte)) as u8;
        let bb = (b >> (8 * byte)) as u8;
        if ba == bb {
            same_byte_count += 1;
        }
        if ba & 0xF0u8 == bb & 0xF0u8 {
            same_nibble_count += 1;
        }
        if ba & 0x0Fu8 == bb & 0x0Fu8 {
            same_nibble_count += 1;
        }
    }
    (same_byte_count, same_nibble_count)
}

fn gen_combinations(options: &[u32; 11], depth: u32, so_far: Vec<u32>, combinations: &mut Vec<Vec<u32>>) {
    if depth == 0 {
        return;
    }
    for option in options {
        let mut next = so_far.clone();
        next.push(*option);
        combinations.push(next.clone());
        gen_combinations(options, depth - 1, next, combinations);
    }
}

fn test_no_full_collisions<T: Hasher>(gen_hash: impl Fn() -> T) {
    let options: [u32; 11] = [
        0x00000000, 0x10000000, 0x20000000, 0x40000000, 0x80000000, 0xF0000000, 1, 2, 4, 8, 15,
    ];
    let mut combinations = Vec::new();
    gen_combinations(&options, 7, Vec::new(), &mut combinations);
    let mut map: HashMap<u64, Vec<u8>> = HashMap::new();
    for combination in combinations {
        use zerocopy::IntoBytes;
        let array = combination.as_bytes().to_vec();
        let mut hasher = gen_hash();
        hasher.write(&array);
        let hash = hasher.finish();
        if let Some(value) = map.get(&hash) {
            assert_eq!(
                value, &array,
                "Found a collision between {:x?} and {:x?}. Hash: {:x?}",
                value, &array, &hash
            );
        } else {
            map.insert(hash, array);
        }
    }
    assert_eq!(21435887, map.len()); //11^7 + 11^6 ...
}

fn test_keys_change_output<T: Hasher>(constructor: impl Fn(u128, u128) -> T) {
    let mut a = constructor(1, 1);
    let mut b = constructor(1, 2);
    let mut c = constructor(2, 1);
    let mut d = constructor(2, 2);
    "test".hash(&mut a);
    "test".hash(&mut b);
    "test".hash(&mut c);
    "test".hash(&mut d);
    assert_sufficiently_different(a.finish(), b.finish(), 1);
    assert_sufficiently_different(a.finish(), c.finish(), 1);
    assert_sufficiently_different(a.finish(), d.finish(), 1);
    assert_sufficiently_different(b.finish(), c.finish(), 1);
    assert_sufficiently_different(b.finish(), d.finish(), 1);
    assert_sufficiently_different(c.finish(), d.finish(), 1);
}

fn test_input_affect_every_byte<T: Hasher>(constructor: impl Fn(u128, u128) -> T) {
    let base = hash_with(&0, constructor(0, 0));
    for shift in 0..16 {
        let mut alternatives = vec![];
        for v in 0..256 {
            let input = (v as u128) << (shift * 8);
            let hasher = constructor(0, 0);
            alternatives.push(hash_with(&input, hasher));
        }
        assert_each_byte_differs(shift, base, alternatives);
    }
}

///Ensures that for every bit in the output there is some value for each byte in the key that flips it.
fn test_keys_affect_every_byte<H: Hash, T: Hasher>(item: H, constructor: impl Fn(u128, u128) -> T) {
    let base = hash_with(&item, constructor(0, 0));
    for shift in 0..16 {
        let mut alternatives1 = vec![];
        let mut alternatives2 = vec![];
        for v in 0..256 {
            let input = (v as u128) << (shift * 8);
            let hasher1 = constructor(input, 0);
            let hasher2 = constructor(0, input);
            let h1 = hash_with(&item, hasher1);
            let h2 = hash_with(&item, hasher2);
            alternatives1.push(h1);
            alternatives2.push(h2);
        }
        assert_each_byte_differs(shift, base, alternatives1);
        assert_each_byte_differs(shift, base, alternatives2);
    }
}

fn assert_each_byte_differs(num: u64, base: u64, alternatives: Vec<u64>) {
    let mut changed_bits = 0_u64;
    for alternative in alternatives {
        changed_bits |= base ^ alternative
    }
    assert_eq!(
        core::u64::MAX,
        changed_bits,
        "Bits changed: {:x} on num: {:?}. base {:x}",
        changed_bits,
        num,
        base
    );
}

fn test_finish_is_consistent<T: Hasher>(constructor: impl Fn(u128, u128) -> T) {
    let mut hasher = constructor(1, 2);
    "Foo".hash(&mut hasher);
    let a = hasher.finish();
    let b = hasher.finish();
    assert_eq!(a, b);
}

fn test_single_key_bit_flip<T: Hasher>(constructor: impl Fn(u128, u128) -> T) {
    for bit in 0..128 {
        let mut a = constructor(0, 0);
        let mut b = constructor(0, 1 << bit);
        let mut c = constructor(1 << bit, 0);
        "1234".hash(&mut a);
        "1234".hash(&mut b);
        "1234".hash(&mut c);
        assert_sufficiently_different(a.finish(), b.finish(), 2);
        assert_sufficiently_different(a.finish(), c.finish(), 2);
        assert_sufficiently_different(b.finish(), c.finish(), 2);
        let mut a = constructor(0, 0);
        let mut b = constructor(0, 1 << bit);
        let mut c = constructor(1 << bit, 0);
        "12345678".hash(&mut a);
        "12345678".hash(&mut b);
        "12345678".hash(&mut c);
        assert_sufficiently_different(a.finish(), b.finish(), 2);
        assert_sufficiently_different(a.finish(), c.finish(), 2);
        assert_sufficiently_different(b.finish(), c.finish(), 2);
        let mut a = constructor(0, 0);
        let mut b = constructor(0, 1 << bit);
        let mut c = constructor(1 << bit, 0);
        "1234567812345678".hash(&mut a);
        "1234567812345678".hash(&mut b);
        "1234567812345678".hash(&mut c);
        assert_sufficiently_different(a.finish(), b.finish(), 2);
        assert_sufficiently_different(a.finish(), c.finish(), 2);
        assert_sufficiently_different(b.finish(), c.finish(), 2);
    }
}

fn test_all_bytes_matter<T: Hasher>(hasher: impl Fn() -> T) {
    let mut item = vec![0; 256];
    let base_hash = hash(&item, &hasher);
    for pos in 0..256 {
        item[pos] = 255;
        let hash = hash(&item, &hasher);
        assert_ne!(base_hash, hash, "Position {} did not affect output", pos);
        item[pos] = 0;
    }
}

fn test_no_pair_collisions<T: Hasher>(hasher: impl Fn() -> T) {
    let base = [0_u64, 0_u64];
    let base_hash = hash(&base, &hasher);
    for bitpos1 in 0..64 {
        let a = 1_u64 << bitpos1;
        for bitpos2 in 0..bitpos1 {
            let b = 1_u64 << bitpos2;
            let aa = hash(&[a, a], &hasher);
            let ab = hash(&[a, b], &hasher);
            let ba = hash(&[b, a], &hasher);
            let bb = hash(&[b, b], &hasher);
            assert_sufficiently_different(base_hash, aa, 3);
            assert_sufficiently_different(base_hash, ab, 3);
            assert_sufficiently_different(base_hash, ba, 3);
            assert_sufficiently_different(base_hash, bb, 3);
            assert_sufficiently_different(aa, ab, 3);
            assert_sufficiently_different(ab, ba, 3);
            assert_sufficiently_different(ba, bb, 3);
            assert_sufficiently_different(aa, ba, 3);
            assert_sufficiently_different(ab, bb, 3);
            assert_sufficiently_different(aa, bb, 3);
        }
    }
}

fn hash<H: Hash, T: Hasher>(b: &H, hash_builder: &dyn Fn() -> T) -> u64 {
    let mut hasher = hash_builder();
    b.hash(&mut hasher);
    hasher.finish()
}

fn hash_with<H: Hash, T: Hasher>(b: &H, mut hasher: T) -> u64 {
    b.hash(&mut hasher);
    hasher.finish()
}

fn test_single_bit_flip<T: Hasher>(hasher: impl Fn() -> T) {
    let size = 32;
    let compare_value = hash(&0u32, &hasher);
    for pos in 0..size {
        let test_value = hash(&(1u32 << pos), &hasher);
        assert_sufficiently_different(compare_value, test_value, 2);
    }
    let size = 64;
    let compare_value = hash(&0u64, &hasher);
    for pos in 0..size {
        let test_value = hash(&(1u64 << pos), &hasher);
        assert_sufficiently_different(compare_value, test_value, 2);
    }
    let size = 128;
    let compare_value = hash(&0u128, &hasher);
    for pos in 0..size {
        let test_value = hash(&(1u128 << pos), &hasher);
        dbg!(compare_value, test_value);
        assert_sufficiently_different(compare_value, test_value, 2);
    }
}

fn test_padding_doesnot_collide<T: Hasher>(hasher: impl Fn() -> T) {
    for c in 0..128u8 {
        for string in ["", "\0", "\x01", "1234", "12345678", "1234567812345678"].iter() {
            let mut short = hasher();
            string.hash(&mut short);
            let value = short.finish();
            let mut padded = string.to_string();
            for num in 1..=128 {
                let mut long = hasher();
                padded.push(c as char);
                padded.hash(&mut long);
                let (same_bytes, same_nibbles) = count_same_bytes_and_nibbles(value, long.finish());
                assert!(
                    same_bytes <= 3,
                    "{} bytes of {} -> {:x} vs {:x}",
                    num,
                    c,
                    value,
                    long.finish()
                );
                assert!(
                    same_nibbles <= 8,
                    "{} bytes of {} -> {:x} vs {:x}",
                    num,
                    c,
                    value,
                    long.finish()
                );
                let flipped_bits = (value ^ long.finish()).count_ones();
                assert!(flipped_bits > 10);
            }
            if string.len() > 0 {
                let mut padded = string[1..].to_string();
                padded.push(c as char);
                for num in 2..=128 {
                    let mut long = hasher();
                    padded.push(c as char);
                    padded.hash(&mut long);
                    let (same_bytes, same_nibbles) = count_same_bytes_and_nibbles(value, long.finish());
                    assert!(
                        same_bytes <= 3,
                        "string {:?} + {} bytes of {} -> {:x} vs {:x}",
                        string,
                        num,
                        c,
                        value,
                        long.finish()
                    );
                    assert!(
                        same_nibbles <= 8,
                        "string {:?} + {} bytes of {} -> {:x} vs {:x}",
                        string,
                        num,
                        c,
                        value,
                        long.finish()
                    );
                    let flipped_bits = (value ^ long.finish()).count_ones();
                    assert!(flipped_bits > 10);
                }
            }
        }
    }
}

fn test_length_extension<T: Hasher>(hasher: impl Fn(u128, u128) -> T) {
    for key in 0..256 {
        let h1 = hasher(key, key);
        let v1 = hash_with(&[0_u8, 0, 0, 0, 0, 0, 0, 0], h1);
        let h2 = hasher(key, key);
        let v2 = hash_with(&[1_u8, 0, 0, 0, 0, 0, 0, 0, 0], h2);
        assert_ne!(v1, v2);
    }
}

fn test_sparse<T: Hasher>(hasher: impl Fn() -> T) {
    use smallvec::SmallVec;

    let mut buf = [0u8; 256];
    let mut hashes = HashMap::new();
    for idx_1 in 0..255_u8 {
        for idx_2 in idx_1 + 1..=255_u8 {
            for value_1 in [1, 2, 4, 8, 16, 32, 64, 128] {
                for value_2 in [
                    1, 2, 3, 4, 5, 6, 7, 8, 9, 10, 12, 15, 16, 17, 18, 20, 24, 31, 32, 33, 48, 64, 96, 127, 128, 129,
                    192, 254, 255,
                ] {
                    buf[idx_1 as usize] = value_1;
                    buf[idx_2 as usize] = value_2;
                    let hash_value = hash_with(&buf, &mut hasher());
                    let keys = hashes.entry(hash_value).or_insert(SmallVec::<[[u8; 4]; 1]>::new());
                    keys.push([idx_1, value_1, idx_2, value_2]);
                    buf[idx_1 as usize] = 0;
                    buf[idx_2 as usize] = 0;
                }
            }
        }
    }
    hashes.retain(|_key, value| value.len() != 1);
    assert_eq!(0, hashes.len(), "Collision with: {:?}", hashes);
}

#[cfg(test)]
mod fallback_tests {
    use crate::fallback_hash::*;
    use crate::hash_quality_test::*;

    #[test]
    fn fallback_single_bit_flip() {
        test_single_bit_flip(|| AHasher::new_with_keys(0, 0))
    }

    #[test]
    fn fallback_single_key_bit_flip() {
        test_single_key_bit_flip(AHasher::new_with_keys)
    }

    #[test]
    fn fallback_all_bytes_matter() {
        test_all_bytes_matter(|| AHasher::new_with_keys(0, 0));
    }

    #[test]
    fn fallback_test_no_pair_collisions() {
        test_no_pair_collisions(|| AHasher::new_with_keys(0, 0));
    }

    #[test]
    fn fallback_test_no_full_collisions() {
        test_no_full_collisions(|| AHasher::new_with_keys(0, 0));
    }

    #[test]
    fn fallback_keys_change_output() {
        test_keys_change_output(AHasher::new_with_keys);
    }

    #[test]
    fn fallback_input_affect_every_byte() {
        test_input_affect_every_byte(AHasher::new_with_keys);
    }

    #[test]
    fn fallback_keys_affect_every_byte() {
        //For fallback second key is not used in every hash.
        #[cfg(all(not(specialize), folded_multiply))]
        test_keys_affect_every_byte(0, |a, b| AHasher::new_with_keys(a ^ b, a));
        test_keys_affect_every_byte("", |a, b| AHasher::new_with_keys(a ^ b, a));
        test_keys_affect_every_byte((0, 0), |a, b| AHasher::new_with_keys(a ^ b, a));
    }

    #[test]
    fn fallback_finish_is_consistant() {
        test_finish_is_consistent(AHasher::test_with_keys)
    }

    #[test]
    fn fallback_padding_doesnot_collide() {
        test_padding_doesnot_collide(|| AHasher::new_with_keys(0, 0));
        test_padding_doesnot_collide(|| AHasher::new_with_keys(0, 2));
        test_padding_doesnot_collide(|| AHasher::new_with_keys(2, 0));
        test_padding_doesnot_collide(|| AHasher::new_with_keys(2, 2));
    }

    #[test]
    fn fallback_length_extension() {
        test_length_extension(|a, b| AHasher::new_with_keys(a, b));
    }

    #[test]
    fn test_no_sparse_collisions() {
        test_sparse(|| AHasher::new_with_keys(0, 0));
        test_sparse(|| AHasher::new_with_keys(1, 2));
    }
}

///Basic sanity tests of the cypto properties of aHash.
#[cfg(any(
    all(any(target_arch = "x86", target_arch = "x86_64"), target_feature = "aes", not(miri)),
    all(feature = "nightly-arm-aes", target_arch = "aarch64", target_feature = "aes", not(miri)),
    all(feature = "nightly-arm-aes", target_arch = "arm", target_feature = "aes", not(miri)),
))]
#[cfg(test)]
mod aes_tests {
    use crate::aes_hash::*;
    use crate::hash_quality_test::*;
    use std::hash::{Hash, Hasher};

    //This encrypts to 0.
    const BAD_KEY2: u128 = 0x6363_6363_6363_6363_6363_6363_6363_6363;
    //This decrypts to 0.
    const BAD_KEY: u128 = 0x5252_5252_5252_5252_5252_5252_5252_5252;

    #[test]
    fn test_single_bit_in_byte() {
        let mut hasher1 = AHasher::test_with_keys(0, 0);
        8_u32.hash(&mut hasher1);
        let mut hasher2 = AHasher::test_with_keys(0, 0);
        0_u32.hash(&mut hasher2);
        assert_sufficiently_different(hasher1.finish(), hasher2.finish(), 1);
    }

    #[test]
    fn aes_single_bit_flip() {
        test_single_bit_flip(|| AHasher::test_with_keys(BAD_KEY, BAD_KEY));
        test_single_bit_flip(|| AHasher::test_with_keys(BAD_KEY2, BAD_KEY2));
    }

    #[test]
    fn aes_single_key_bit_flip() {
        test_single_key_bit_flip(AHasher::test_with_keys)
    }

    #[test]
    fn aes_all_bytes_matter() {
        test_all_bytes_matter(|| AHasher::test_with_keys(BAD_KEY, BAD_KEY));
        test_all_bytes_matter(|| AHasher::test_with_keys(BAD_KEY2, BAD_KEY2));
    }

    #[test]
    fn aes_test_no_pair_collisions() {
        test_no_pair_collisions(|| AHasher::test_with_keys(BAD_KEY, BAD_KEY));
        test_no_pair_collisions(|| AHasher::test_with_keys(BAD_KEY2, BAD_KEY2));
    }

    #[test]
    fn ase_test_no_full_collisions() {
        test_no_full_collisions(|| AHasher::test_with_keys(12345, 67890));
    }

    #[test]
    fn aes_keys_change_output() {
        test_keys_change_output(AHasher::test_with_keys);
    }

    #[test]
    fn aes_input_affect_every_byte() {
        test_input_affect_every_byte(AHasher::test_with_keys);
    }

    #[test]
    fn aes_keys_affect_every_byte() {
        #[cfg(not(specialize))]
        test_keys_affect_every_byte(0, AHasher::test_with_keys);
        test_keys_affect_every_byte("", AHasher::test_with_keys);
        test_keys_affect_every_byte((0, 0), AHasher::test_with_keys);
    }

    #[test]
    fn aes_finish_is_consistant() {
        test_finish_is_consistent(AHasher::test_with_keys)
    }

    #[test]
    fn aes_padding_doesnot_collide() {
        test_padding_doesnot_collide(|| AHasher::test_with_keys(BAD_KEY, BAD_KEY));
        test_padding_doesnot_collide(|| AHasher::test_with_keys(BAD_KEY2, BAD_KEY2));
    }

    #[test]
    fn aes_length_extension() {
        test_length_extension(|a, b| AHasher::test_with_keys(a, b));
    }

    #[test]
    fn aes_no_sparse_collisions() {
        test_sparse(|| AHasher::test_with_keys(0, 0));
        test_sparse(|| AHasher::test_with_keys(1, 2));
    }
}
