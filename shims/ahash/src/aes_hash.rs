use crate::convert::*;
use crate::operations::*;
use crate::random_state::PI;
use crate::RandomState;
use core::hash::Hasher;

/// A `Hasher` for hashing an arbitrary stream of bytes.
///
/// Instances of [`AHasher`] represent state that is updated while hashing data.
///
/// Each method updates the internal state based on the new data provided. Once
/// all of the data has been provided, the resulting hash can be obtained by calling
/// `finish()`
///
/// [Clone] is also provided in case you wish to calculate hashes for two different items that
/// start with the same data.
///
#[derive(Debug, Clone)]
pub struct AHasher {
    enc: u128,
    sum: u128,
    key: u128,
}

impl AHasher {
    /// Creates a new hasher keyed to the provided keys.
    ///
    /// Normally hashers are created via `AHasher::default()` for fixed keys or `RandomState::new()` for randomly
    /// generated keys and `RandomState::with_seeds(a,b)` for seeds that are set and can be reused. All of these work at
    /// map creation time (and hence don't have any overhead on a per-item bais).
    ///
    /// This method directly creates the hasher instance and performs no transformation on the provided seeds. This may
    /// be useful where a HashBuilder is not desired, such as for testing purposes.
    ///
    /// # Example
    ///
    /// ```no_build
    /// use std::hash::Hasher;
    /// use ahash::AHasher;
    ///
    /// let mut hasher = AHasher::new_with_keys(1234, 5678);
    ///
    /// hasher.write_u32(1989);
    /// hasher.write_u8(11);
    /// hasher.write_u8(9);
    /// hasher.write(b"Huh?");
    ///
    /// println!("Hash is {:x}!", hasher.finish());
    /// ```
    #[inline]
    pub(crate) fn new_with_keys(key1: u128, key2: u128) -> Self {
        let pi: [u128; 2] = PI.convert();
        let key1 = key1 ^ pi[0];
        let key2 = key2 ^ pi[1];
        Self {
            enc: key1,
            sum: key2,
            key: key1 ^ key2,
        }
    }

    #[allow(unused)] // False positive
    pub(crate) fn test_with_keys(key1: u128, key2: u128) -> Self {
        Self {
            enc: key1,
            sum: key2,
            key: key1 ^ key2,
        }
    }

    #[inline]
    pub(crate) fn from_random_state(rand_state: &RandomState) -> Self {
        let key1 = [rand_state.k0, rand_state.k1].convert();
        let key2 = [rand_state.k2, rand_state.k3].convert();
        Self {
            enc: key1,
            sum: key2,
            key: key1 ^ key2,
        }
    }

    #[inline(always)]
    fn hash_in(&mut self, new_value: u128) {
        self.enc = aesdec(self.enc, new_value);
        self.sum = shuffle_and_add(self.sum, new_value);
    }

    #[inline(always)]
    fn hash_in_2(&mut self, v1: u128, v2: u128) {
        self.enc = aesdec(self.enc, v1);
        self.sum = shuffle_and_add(self.sum, v1);
        self.enc = aesdec(self.enc, v2);
        self.sum = shuffle_and_add(self.sum, v2);
    }

    #[inline]
    #[cfg(specialize)]
    fn short_finish(&self) -> u64 {
        let combined = aesenc(self.sum, self.enc);
        let result: [u64; 2] = aesdec(combined, combined).convert();
        result[0]
    }
}

/// Provides [Hasher] methods to hash all of the primitive types.
///
/// [Hasher]: core::hash::Hasher
impl Hasher for AHasher {
    #[inline]
    fn write_u8(&mut self, i: u8) {
        self.write_u64(i as u64);
    }

    #[inline]
    fn write_u16(&mut self, i: u16) {
        self.write_u64(i as u64);
    }

    #[inline]
    fn write_u32(&mut self, i: u32) {
        self.write_u64(i as u64);
    }

    #[inline]
    fn write_u128(&mut self, i: u128) {
        self.hash_in(i);
    }

    #[inline]
    #[cfg(any(
        target_pointer_width = "64",
        target_pointer_width = "32",
        target_pointer_width = "16"
    ))]
    fn write_usize(&mut self, i: usize) {
        self.write_u64(i as u64);
    }

    #[inline]
    #[cfg(target_pointer_width = "128")]
    fn write_usize(&mut self, i: usize) {
        self.write_u128(i as u128);
    }

    #[inline]
    fn write_u64(&mut self, i: u64) {
        self.write_u128(i as u128);
    }

    #[inline]
    #[allow(clippy::collapsible_if)]
    fn write(&mut self, input: &[u8]) {
        let mut data = input;
        let length = data.len();
        add_in_length(&mut self.enc, length as u64);

        //A 'binary search' on sizes reduces the number of comparisons.
        if data.len() <= 8 {
            let value = read_small(data);
            self.hash_in(value.convert());
        } else {
            if data.len() > 32 {
                if data.len() > 64 {
                    let tail = data.read_last_u128x4();
                    let mut current: [u128; 4] = [self.key; 4];
                    current[0] = aesenc(current[0], tail[0]);
                    current[1] = aesdec(current[1], tail[1]);
                    current[2] = aesenc(current[2], tail[2]);
                    current[3] = aesdec(current[3], tail[3]);
                    let mut sum: [u128; 2] = [self.key, !self.key];
                    sum[0] = add_by_64s(sum[0].convert(), tail[0].convert()).convert();
                    sum[1] = add_by_64s(sum[1].convert(), tail[1].convert()).convert();
                    sum[0] = shuffle_and_add(sum[0], tail[2]);
                    sum[1] = shuffle_and_add(sum[1], tail[3]);
                    while data.len() > 64 {
                        let (blocks, rest) = data.read_u128x4();
                        current[0] = aesdec(current[0], blocks[0]);
                        current[1] = aesdec(current[1], blocks[1]);
                        current[2] = aesdec(current[2], blocks[2]);
                        current[3] = aesdec(current[3], blocks[3]);
                        sum[0] = shuffle_and_add(sum[0], blocks[0]);
                        sum[1] = shuffle_and_add(sum[1], blocks[1]);
                        sum[0] = shuffle_and_add(sum[0], blocks[2]);
                        sum[1] = shuffle_and_add(sum[1], blocks[3]);
                        data = rest;
                    }
                    self.hash_in_2(current[0], current[1]);
                    self.hash_in_2(current[2], current[3]);
                    self.hash_in_2(sum[0], sum[1]);
                } else {
                    //len 33-64
                    let (head, _) = data.read_u128x2();
                    let tail = data.read_last_u128x2();
                    self.hash_in_2(head[0], head[1]);
                    self.hash_in_2(tail[0], tail[1]);
                }
            } else {
                if data.len() > 16 {
                    //len 17-32
                    self.hash_in_2(data.read_u128().0, data.read_last_u128());
                } else {
                    //len 9-16
                    let value: [u64; 2] = [data.read_u64().0, data.read_last_u64()];
                    self.hash_in(value.convert());
                }
            }
        }
    }
    #[inline]
    fn finish(&self) -> u64 {
        let combined = aesenc(self.sum, self.enc);
        let result: [u64; 2] = aesdec(aesdec(combined, self.key), combined).convert();
        result[0]
    }
}

#[cfg(specialize)]
pub(crate) struct AHasherU64 {
    pub(crate) buffer: u64,
    pub(crate) pad: u64,
}

/// A specialized hasher for only primitives under 64 bits.
#[cfg(specialize)]
impl Hasher for AHasherU64 {
    #[inline]
    fn finish(&self) -> u64 {
        folded_multiply(self.buffer, self.pad)
    }

    #[inline]
    fn write(&mut self, _bytes: &[u8]) {
        unreachable!("Specialized hasher was called with a different type of object")
    }

    #[inline]
    fn write_u8(&mut self, i: u8) {
        self.write_u64(i as u64);
    }

    #[inline]
    fn write_u16(&mut self, i: u16) {
        self.write_u64(i as u64);
    }

    #[inline]
    fn write_u32(&mut self, i: u32) {
        self.write_u64(i as u64);
    }

    #[inline]
    fn write_u64(&mut self, i: u64) {
        self.buffer = folded_multiply(i ^ self.buffer, MULTIPLE);
    }

    #[inline]
    fn write_u128(&mut self, _i: u128) {
        unreachable!("Specialized hasher was called with a different type of object")
    }

    #[inline]
    fn write_usize(&mut self, _i: usize) {
        unreachable!("Specialized hasher was called with a different type of object")
    }
}

#[cfg(specialize)]
pub(crate) struct AHasherFixed(pub AHasher);

/// A specialized hasher for fixed size primitives larger than 64 bits.
#[cfg(specialize)]
impl Hasher for AHasherFixed {
    #[inline]
    fn finish(&self) -> u64 {
        self.0.short_finish()
    }

    #[inline]
    fn write(&mut self, bytes: &[u8]) {
        self.0.write(bytes)
    }

    #[inline]
    fn write_u8(&mut self, i: u8) {
        self.write_u64(i as u64);
    }

    #[inline]
    fn write_u16(&mut self, i: u16) {
        self.write_u64(i as u64);
    }

    #[inline]
    fn write_u32(&mut self, i: u32) {
        self.write_u64(i as u64);
    }

    #[inline]
    fn write_u64(&mut self, i: u64) {
        self.0.write_u64(i);
    }

    #[inline]
    fn write_u128(&mut self, i: u128) {
        self.0.write_u128(i);
    }

    #[inline]
    fn write_usize(&mut self, i: usize) {
        self.0.write_usize(i);
    }
}

#[cfg(specialize)]
pub(crate) struct AHasherStr(pub AHasher);

/// A specialized hasher for strings
/// Note that the other types don't panic because the hash impl for String tacks on an unneeded call. (As does vec)
#[cfg(specialize)]
impl Hasher for AHasherStr {
    #[inline]
    fn finish(&self) -> u64 {
        let result: [u64; 2] = self.0.enc.convert();
        result[0]
    }

    #[inline]
    fn write(&mut self, bytes: &[u8]) {
        if bytes.len() > 8 {
            self.0.write(bytes);
            self.0.enc = aesenc(self.0.sum, self.0.enc);
            self.0.enc = aesdec(aesdec(self.0.enc, self.0.key), self.0.enc);
        } else {
            add_in_length(&mut self.0.enc, bytes.len() as u64);

            let value = read_small(bytes).convert();
            self.0.sum = shuffle_and_add(self.0.sum, value);
            self.0.enc = aesenc(self.0.sum, self.0.enc);
            self.0.enc = aesdec(aesdec(self.0.enc, self.0.key), self.0.enc);
        }
    }

    #[inline]
    fn write_u8(&mut self, _i: u8) {}

    #[inline]
    fn write_u16(&mut self, _i: u16) {}

    #[inline]
    fn write_u32(&mut self, _i: u32) {}

    #[inline]
    fn write_u64(&mut self, _i: u64) {}

    #[inline]
    fn write_u128(&mut self, _i: u128) {}

    #[inline]
    fn write_usize(&mut self, _i: usize) {}
}

#[cfg(test)]
mod tests {
    use super::*;
    use crate::convert::Convert;
    use crate::operations::aesenc;
    use crate::RandomState;
    use std::hash::{BuildHasher, Hasher};
    #[test]
    fn test_sanity() {
        let mut hasher = RandomState::with_seeds(1, 2, 3, 4).build_hasher();
        hasher.write_u64(0);
        let h1 = hasher.finish();
        hasher.write(&[1, 0, 0, 0, 0, 0, 0, 0]);
        let h2 = hasher.finish();
        assert_ne!(h1, h2);
    }

    #[cfg(feature = "compile-time-rng")]
    #[test]
    fn test_builder() {
        use std::collections::HashMap;
        use std::hash::BuildHasherDefault;

        let mut map = HashMap::<u32, u64, BuildHasherDefault<AHasher>>::default();
        map.insert(1, 3);
    }

    #[cfg(feature = "compile-time-rng")]
    #[test]
    fn test_default() {
        let hasher_a = AHasher::default();
        let a_enc: [u64; 2] = hasher_a.enc.convert();
        let a_sum: [u64; 2] = hasher_a.sum.convert();
        assert_ne!(0, a_enc[0]);
        assert_ne!(0, a_enc[1]);
        assert_ne!(0, a_sum[0]);
        assert_ne!(0, a_sum[1]);
        assert_ne!(a_enc[0], a_enc[1]);
        assert_ne!(a_sum[0], a_sum[1]);
        assert_ne!(a_enc[0], a_sum[0]);
        assert_ne!(a_enc[1], a_sum[1]);
        let hasher_b = AHasher::default();
        let b_enc: [u64; 2] = hasher_b.enc.convert();
        let b_sum: [u64; 2] = hasher_b.sum.convert();
        assert_eq!(a_enc[0], b_enc[0]);
        assert_eq!(a_enc[1], b_enc[1]);
        assert_eq!(a_sum[0], b_sum[0]);
        assert_eq!(a_sum[1], b_sum[1]);
    }

    #[test]
    fn test_hash() {
        let mut result: [u64; 2] = [0x6c62272e07bb0142, 0x62b821756295c58d];
        let value: [u64; 2] = [1 << 32, 0xFEDCBA9876543210];
        result = aesenc(value.convert(), result.convert()).convert();
        result = aesenc(result.convert(), result.convert()).convert();
        let mut result2: [u64; 2] = [0x6c62272e07bb0142, 0x62b821756295c58d];
        let value2: [u64; 2] = [1, 0xFEDCBA9876543210];
        result2 = aesenc(value2.convert(), result2.convert()).convert();
        result2 = aesenc(result2.convert(), result.convert()).convert();
        let result: [u8; 16] = result.convert();
        let result2: [u8; 16] = result2.convert();
        assert_ne!(hex::encode(result), hex::encode(result2));
    }
}
