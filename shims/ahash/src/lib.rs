//! AHash is a high performance keyed hash function.
//!
//! It quickly provides a high quality hash where the result is not predictable without knowing the Key.
//! AHash works with `HashMap` to hash keys, but without allowing for the possibility that an malicious user can
//! induce a collision.
//!
//! # How aHash works
//!
//! When it is available aHash uses the hardware AES instructions to provide a keyed hash function.
//! When it is not, aHash falls back on a slightly slower alternative algorithm.
//!
//! Because aHash does not have a fixed standard for its output, it is able to improve over time.
//! But this also means that different computers or computers using different versions of ahash may observe different
//! hash values for the same input.
#![cfg_attr(
    all(
        feature = "std",
        any(feature = "compile-time-rng", feature = "runtime-rng", feature = "no-rng")
    ),
    doc = r##"
# Basic Usage
AHash provides an implementation of the [Hasher] trait.
To construct a HashMap using aHash as its hasher do the following:
```
use ahash::{AHasher, RandomState};
use std::collections::HashMap;

let mut map: HashMap<i32, i32, RandomState> = HashMap::default();
map.insert(12, 34);
```

### Randomness

The above requires a source of randomness to generate keys for the hashmap. By default this obtained from the OS.
It is also possible to have randomness supplied via the `compile-time-rng` flag, or manually.

### If randomness is not available

[AHasher::default()] can be used to hash using fixed keys. This works with
[BuildHasherDefault](std::hash::BuildHasherDefault). For example:

```
use std::hash::BuildHasherDefault;
use std::collections::HashMap;
use ahash::AHasher;

let mut m: HashMap<_, _, BuildHasherDefault<AHasher>> = HashMap::default();
 # m.insert(12, 34);
```
It is also possible to instantiate [RandomState] directly:

```
use ahash::HashMap;
use ahash::RandomState;

let mut m = HashMap::with_hasher(RandomState::with_seed(42));
 # m.insert(1, 2);
```
Or for uses besides a hashhmap:
```
use std::hash::BuildHasher;
use ahash::RandomState;

let hash_builder = RandomState::with_seed(42);
let hash = hash_builder.hash_one("Some Data");
```
There are several constructors for [RandomState] with different ways to supply seeds.

# Convenience wrappers

For convenience, both new-type wrappers and type aliases are provided.

The new type wrappers are called called `AHashMap` and `AHashSet`.
```
use ahash::AHashMap;

let mut map: AHashMap<i32, i32> = AHashMap::new();
map.insert(12, 34);
```
This avoids the need to type "RandomState". (For convenience `From`, `Into`, and `Deref` are provided).

# Aliases

For even less typing and better interop with existing libraries (such as rayon) which require a `std::collection::HashMap` ,
the type aliases [HashMap], [HashSet] are provided.

```
use ahash::{HashMap, HashMapExt};

let mut map: HashMap<i32, i32> = HashMap::new();
map.insert(12, 34);
```
Note the import of [HashMapExt]. This is needed for the constructor.

"##
)]
#![deny(clippy::correctness, clippy::complexity, clippy::perf)]
#![allow(clippy::pedantic, clippy::cast_lossless, clippy::unreadable_literal)]
#![cfg_attr(all(not(test), not(feature = "std")), no_std)]
#![cfg_attr(specialize, feature(min_specialization))]
#![cfg_attr(feature = "nightly-arm-aes", feature(stdarch_arm_neon_intrinsics))]

#[macro_use]
mod convert;

mod fallback_hash;

cfg_if::cfg_if! {
    if #[cfg(any(
            all(any(target_arch = "x86", target_arch = "x86_64"), target_feature = "aes", not(miri)),
            all(feature = "nightly-arm-aes", target_arch = "aarch64", target_feature = "aes", not(miri)),
            all(feature = "nightly-arm-aes", target_arch = "arm", target_feature = "aes", not(miri)),
        ))] {
        mod aes_hash;
        pub use crate::aes_hash::AHasher;
    } else {
        pub use crate::fallback_hash::AHasher;
    }
}

cfg_if::cfg_if! {
    if #[cfg(feature = "std")] {
        mod hash_map;
        mod hash_set;

        pub use crate::hash_map::AHashMap;
        pub use crate::hash_set::AHashSet;

        /// [Hasher]: std::hash::Hasher
        /// [HashMap]: std::collections::HashMap
        /// Type alias for [HashMap]<K, V, ahash::RandomState>
        pub type HashMap<K, V> = std::collections::HashMap<K, V, crate::RandomState>;

        /// Type alias for [HashSet]<K, ahash::RandomState>
        pub type HashSet<K> = std::collections::HashSet<K, crate::RandomState>;
    }
}

#[cfg(test)]
mod hash_quality_test;

mod operations;
pub mod random_state;
mod specialize;

pub use crate::random_state::RandomState;

use core::hash::BuildHasher;

#[cfg(feature = "std")]
/// A convenience trait that can be used together with the type aliases defined to
/// get access to the `new()` and `with_capacity()` methods for the HashMap type alias.
pub trait HashMapExt {
    /// Constructs a new HashMap
    fn new() -> Self;
    /// Constructs a new HashMap with a given initial capacity
    fn with_capacity(capacity: usize) -> Self;
}

#[cfg(feature = "std")]
/// A convenience trait that can be used together with the type aliases defined to
/// get access to the `new()` and `with_capacity()` methods for the HashSet type aliases.
pub trait HashSetExt {
    /// Constructs a new HashSet
    fn new() -> Self;
    /// Constructs a new HashSet with a given initial capacity
    fn with_capacity(capacity: usize) -> Self;
}

#[cfg(feature = "std")]
impl<K, V, S> HashMapExt for std::collections::HashMap<K, V, S>
where
    S: BuildHasher + Default,
{
    fn new() -> Self {
        std::collections::HashMap::with_hasher(S::default())
    }

    fn with_capacity(capacity: usize) -> Self {
        std::collections::HashMap::with_capacity_and_hasher(capacity, S::default())
    }
}

#[cfg(feature = "std")]
impl<K, S> HashSetExt for std::collections::HashSet<K, S>
where
    S: BuildHasher + Default,
{
    fn new() -> Self {
        std::collections::HashSet::with_hasher(S::default())
    }

    fn with_capacity(capacity: usize) -> Self {
        std::collections::HashSet::with_capacity_and_hasher(capacity, S::default())
    }
}

/// Provides a default [Hasher] with fixed keys.
/// This is typically used in conjunction with [BuildHasherDefault] to create
/// [AHasher]s in order to hash the keys of the map.
///
/// Generally it is preferable to use [RandomState] instead, so that different
/// hashmaps will have different keys. However if fixed keys are desirable this
/// may be used instead.
///
/// # Example
/// ```
/// use std::hash::BuildHasherDefault;
/// use ahash::{AHasher, RandomState};
/// use std::collections::HashMap;
///
/// let mut map: HashMap<i32, i32, BuildHasherDefault<AHasher>> = HashMap::default();
/// map.insert(12, 34);
/// ```
///
/// [BuildHasherDefault]: std::hash::BuildHasherDefault
/// [Hasher]: std::hash::Hasher
/// [HashMap]: std::collections::HashMap
impl Default for AHasher {
    /// Constructs a new [AHasher] with fixed keys.
    /// If `std` is enabled these will be generated upon first invocation.
    /// Otherwise if the `compile-time-rng`feature is enabled these will be generated at compile time.
    /// If neither of these features are available, hardcoded constants will be used.
    ///
    /// Because the values are fixed, different hashers will all hash elements the same way.
    /// This could make hash values predictable, if DOS attacks are a concern. If this behaviour is
    /// not required, it may be preferable to use [RandomState] instead.
    ///
    /// # Examples
    ///
    /// ```
    /// use ahash::AHasher;
    /// use std::hash::Hasher;
    ///
    /// let mut hasher_1 = AHasher::default();
    /// let mut hasher_2 = AHasher::default();
    ///
    /// hasher_1.write_u32(1234);
    /// hasher_2.write_u32(1234);
    ///
    /// assert_eq!(hasher_1.finish(), hasher_2.finish());
    /// ```
    #[inline]
    fn default() -> AHasher {
        RandomState::with_fixed_keys().build_hasher()
    }
}

// #[inline(never)]
// #[doc(hidden)]
// pub fn hash_test(input: &[u8]) -> u64 {
//     let a = RandomState::with_seeds(11, 22, 33, 44);
//     <[u8]>::get_hash(input, &a)
// }

#[cfg(feature = "std")]
#[cfg(test)]
mod test {
    use crate::convert::Convert;
    use crate::specialize::CallHasher;
    use crate::*;
    use core::hash::Hash;
    use core::hash::Hasher;
    use std::collections::HashMap;

    #[test]
    fn test_ahash_alias_map_construction() {
        let mut map = super::HashMap::with_capacity(1234);
        map.insert(1, "test");
    }

    #[test]
    fn test_ahash_alias_set_construction() {
        let mut set = super::HashSet::with_capacity(1234);
        set.insert(1);
    }

    #[test]
    fn test_default_builder() {
        use core::hash::BuildHasherDefault;

        let mut map = HashMap::<u32, u64, BuildHasherDefault<AHasher>>::default();
        map.insert(1, 3);
    }

    #[test]
    fn test_builder() {
        let mut map = HashMap::<u32, u64, RandomState>::default();
        map.insert(1, 3);
    }

    #[test]
    fn test_conversion() {
        let input: &[u8] = b"dddddddd";
        let bytes: u64 = as_array!(input, 8).convert();
        assert_eq!(bytes, 0x6464646464646464);
    }

    #[test]
    fn test_non_zero() {
        let mut hasher1 = AHasher::new_with_keys(0, 0);
        let mut hasher2 = AHasher::new_with_keys(0, 0);
        "foo".hash(&mut hasher1);
        "bar".hash(&mut hasher2);
        assert_ne!(hasher1.finish(), 0);
        assert_ne!(hasher2.finish(), 0);
        assert_ne!(hasher1.finish(), hasher2.finish());

        let mut hasher1 = AHasher::new_with_keys(0, 0);
        let mut hasher2 = AHasher::new_with_keys(0, 0);
        3_u64.hash(&mut hasher1);
        4_u64.hash(&mut hasher2);
        assert_ne!(hasher1.finish(), 0);
        assert_ne!(hasher2.finish(), 0);
        assert_ne!(hasher1.finish(), hasher2.finish());
    }

    #[test]
    fn test_non_zero_specialized() {
        let hasher_build = RandomState::with_seeds(0, 0, 0, 0);

        let h1 = str::get_hash("foo", &hasher_build);
        let h2 = str::get_hash("bar", &hasher_build);
        assert_ne!(h1, 0);
        assert_ne!(h2, 0);
        assert_ne!(h1, h2);

        let h1 = u64::get_hash(&3_u64, &hasher_build);
        let h2 = u64::get_hash(&4_u64, &hasher_build);
        assert_ne!(h1, 0);
        assert_ne!(h2, 0);
        assert_ne!(h1, h2);
    }

    #[test]
    fn test_ahasher_construction() {
        let _ = AHasher::new_with_keys(1234, 5678);
    }

    #[test]
    fn test_specialize_reference_hash() {
        let hasher_build = RandomState::with_seeds(0, 0, 0, 0);
        let h1 = hasher_build.hash_one(1u64);
        let h2 = hasher_build.hash_one(&1u64);

        assert_eq!(h1, h2);

        let h1 = u64::get_hash(&1_u64, &hasher_build);
        let h2 = <&u64>::get_hash(&&1_u64, &hasher_build);

        assert_eq!(h1, h2);

        let h1 = hasher_build.hash_one(1u128);
        let h2 = hasher_build.hash_one(&1u128);

        assert_eq!(h1, h2);
    }
}
