use crate::RandomState;
use std::collections::{hash_set, HashSet};
use std::fmt::{self, Debug};
use std::hash::{BuildHasher, Hash};
use std::iter::FromIterator;
use std::ops::{BitAnd, BitOr, BitXor, Deref, DerefMut, Sub};

#[cfg(feature = "serde")]
use serde::{
    de::{Deserialize, Deserializer},
    ser::{Serialize, Serializer},
};

/// A [`HashSet`](std::collections::HashSet) using [`RandomState`](crate::RandomState) to hash the items.
/// (Requires the `std` feature to be enabled.)
#[derive(Clone)]
pub struct AHashSet<T, S = RandomState>(HashSet<T, S>);

impl<T> From<HashSet<T, RandomState>> for AHashSet<T> {
    fn from(item: HashSet<T, RandomState>) -> Self {
        AHashSet(item)
    }
}

impl<T, const N: usize> From<[T; N]> for AHashSet<T>
where
    T: Eq + Hash,
{
    /// # Examples
    ///
    /// ```
    /// use ahash::AHashSet;
    ///
    /// let set1 = AHashSet::from([1, 2, 3, 4]);
    /// let set2: AHashSet<_> = [1, 2, 3, 4].into();
    /// assert_eq!(set1, set2);
    /// ```
    fn from(arr: [T; N]) -> Self {
        Self::from_iter(arr)
    }
}

impl<T> Into<HashSet<T, RandomState>> for AHashSet<T> {
    fn into(self) -> HashSet<T, RandomState> {
        self.0
    }
}

impl<T> AHashSet<T, RandomState> {
    /// This creates a hashset using [RandomState::new].
    /// See the documentation in [RandomSource] for notes about key strength.
    pub fn new() -> Self {
        AHashSet(HashSet::with_hasher(RandomState::new()))
    }

    /// This craetes a hashset with the specified capacity using [RandomState::new].
    /// See the documentation in [RandomSource] for notes about key strength.
    pub fn with_capacity(capacity: usize) -> Self {
        AHashSet(HashSet::with_capacity_and_hasher(capacity, RandomState::new()))
    }
}

impl<T, S> AHashSet<T, S>
where
    S: BuildHasher,
{
    pub fn with_hasher(hash_builder: S) -> Self {
        AHashSet(HashSet::with_hasher(hash_builder))
    }

    pub fn with_capacity_and_hasher(capacity: usize, hash_builder: S) -> Self {
        AHashSet(HashSet::with_capacity_and_hasher(capacity, hash_builder))
    }
}

impl<T, S> Deref for AHashSet<T, S> {
    type Target = HashSet<T, S>;
    fn deref(&self) -> &Self::Target {
        &self.0
    }
}

impl<T, S> DerefMut for AHashSet<T, S> {
    fn deref_mut(&mut self) -> &mut Self::Target {
        &mut self.0
    }
}

impl<T, S> PartialEq for AHashSet<T, S>
where
    T: Eq + Hash,
    S: BuildHasher,
{
    fn eq(&self, other: &AHashSet<T, S>) -> bool {
        self.0.eq(&other.0)
    }
}

impl<T, S> Eq for AHashSet<T, S>
where
    T: Eq + Hash,
    S: BuildHasher,
{
}

impl<T, S> BitOr<&AHashSet<T, S>> for &AHashSet<T, S>
where
    T: Eq + Hash + Clone,
    S: BuildHasher + Default,
{
    type Output = AHashSet<T, S>;

    /// Returns the union of `self` and `rhs` as a new `AHashSet<T, S>`.
    ///
    /// # Examples
    ///
    /// ```
    /// use ahash::AHashSet;
    ///
    /// let a: AHashSet<_> = vec![1, 2, 3].into_iter().collect();
    /// let b: AHashSet<_> = vec![3, 4, 5].into_iter().collect();
    ///
    /// let set = &a | &b;
    ///
    /// let mut i = 0;
    /// let expected = [1, 2, 3, 4, 5];
    /// for x in &set {
    ///     assert!(expected.contains(x));
    ///     i += 1;
    /// }
    /// assert_eq!(i, expected.len());
    /// ```
    fn bitor(self, rhs: &AHashSet<T, S>) -> AHashSet<T, S> {
        AHashSet(self.0.bitor(&rhs.0))
    }
}

impl<T, S> BitAnd<&AHashSet<T, S>> for &AHashSet<T, S>
where
    T: Eq + Hash + Clone,
    S: BuildHasher + Default,
{
    type Output = AHashSet<T, S>;

    /// Returns the intersection of `self` and `rhs` as a new `AHashSet<T, S>`.
    ///
    /// # Examples
    ///
    /// ```
    /// use ahash::AHashSet;
    ///
    /// let a: AHashSet<_> = vec![1, 2, 3].into_iter().collect();
    /// let b: AHashSet<_> = vec![2, 3, 4].into_iter().collect();
    ///
    /// let set = &a & &b;
    ///
    /// let mut i = 0;
    /// let expected = [2, 3];
    /// for x in &set {
    ///     assert!(expected.contains(x));
    ///     i += 1;
    /// }
    /// assert_eq!(i, expected.len());
    /// ```
    fn bitand(self, rhs: &AHashSet<T, S>) -> AHashSet<T, S> {
        AHashSet(self.0.bitand(&rhs.0))
    }
}

impl<T, S> BitXor<&AHashSet<T, S>> for &AHashSet<T, S>
where
    T: Eq + Hash + Clone,
    S: BuildHasher + Default,
{
    type Output = AHashSet<T, S>;

    /// Returns the symmetric difference of `self` and `rhs` as a new `AHashSet<T, S>`.
    ///
    /// # Examples
    ///
    /// ```
    /// use ahash::AHashSet;
    ///
    /// let a: AHashSet<_> = vec![1, 2, 3].into_iter().collect();
    /// let b: AHashSet<_> = vec![3, 4, 5].into_iter().collect();
    ///
    /// let set = &a ^ &b;
    ///
    /// let mut i = 0;
    /// let expected = [1, 2, 4, 5];
    /// for x in &set {
    ///     assert!(expected.contains(x));
    ///     i += 1;
    /// }
    /// assert_eq!(i, expected.len());
    /// ```
    fn bitxor(self, rhs: &AHashSet<T, S>) -> AHashSet<T, S> {
        AHashSet(self.0.bitxor(&rhs.0))
    }
}

impl<T, S> Sub<&AHashSet<T, S>> for &AHashSet<T, S>
where
    T: Eq + Hash + Clone,
    S: BuildHasher + Default,
{
    type Output = AHashSet<T, S>;

    /// Returns the difference of `self` and `rhs` as a new `AHashSet<T, S>`.
    ///
    /// # Examples
    ///
    /// ```
    /// use ahash::AHashSet;
    ///
    /// let a: AHashSet<_> = vec![1, 2, 3].into_iter().collect();
    /// let b: AHashSet<_> = vec![3, 4, 5].into_iter().collect();
    ///
    /// let set = &a - &b;
    ///
    /// let mut i = 0;
    /// let expected = [1, 2];
    /// for x in &set {
    ///     assert!(expected.contains(x));
    ///     i += 1;
    /// }
    /// assert_eq!(i, expected.len());
    /// ```
    fn sub(self, rhs: &AHashSet<T, S>) -> AHashSet<T, S> {
        AHashSet(self.0.sub(&rhs.0))
    }
}

impl<T, S> Debug for AHashSet<T, S>
where
    T: Debug,
    S: BuildHasher,
{
    fn fmt(&self, fmt: &mut fmt::Formatter<'_>) -> fmt::Result {
        self.0.fmt(fmt)
    }
}

impl<T> FromIterator<T> for AHashSet<T, RandomState>
where
    T: Eq + Hash,
{
    /// This creates a hashset from the provided iterator using [RandomState::new].
    /// See the documentation in [RandomSource] for notes about key strength.
    #[inline]
    fn from_iter<I: IntoIterator<Item = T>>(iter: I) -> AHashSet<T> {
        let mut inner = HashSet::with_hasher(RandomState::new());
        inner.extend(iter);
        AHashSet(inner)
    }
}

impl<'a, T, S> IntoIterator for &'a AHashSet<T, S> {
    type Item = &'a T;
    type IntoIter = hash_set::Iter<'a, T>;
    fn into_iter(self) -> Self::IntoIter {
        (&self.0).iter()
    }
}

impl<T, S> IntoIterator for AHashSet<T, S> {
    type Item = T;
    type IntoIter = hash_set::IntoIter<T>;
    fn into_iter(self) -> Self::IntoIter {
        self.0.into_iter()
    }
}

impl<T, S> Extend<T> for AHashSet<T, S>
where
    T: Eq + Hash,
    S: BuildHasher,
{
    #[inline]
    fn extend<I: IntoIterator<Item = T>>(&mut self, iter: I) {
        self.0.extend(iter)
    }
}

impl<'a, T, S> Extend<&'a T> for AHashSet<T, S>
where
    T: 'a + Eq + Hash + Copy,
    S: BuildHasher,
{
    #[inline]
    fn extend<I: IntoIterator<Item = &'a T>>(&mut self, iter: I) {
        self.0.extend(iter)
    }
}

/// NOTE: For safety this trait impl is only available available if either of the flags `runtime-rng` (on by default) or
/// `compile-time-rng` are enabled. This is to prevent weakly keyed maps from being accidentally created. Instead one of
/// constructors for [RandomState] must be used.
#[cfg(any(feature = "compile-time-rng", feature = "runtime-rng", feature = "no-rng"))]
impl<T> Default for AHashSet<T, RandomState> {
    /// Creates an empty `AHashSet<T, S>` with the `Default` value for the hasher.
    #[inline]
    fn default() -> AHashSet<T, RandomState> {
        AHashSet(HashSet::default())
    }
}

#[cfg(feature = "serde")]
impl<T> Serialize for AHashSet<T>
where
    T: Serialize + Eq + Hash,
{
    fn serialize<S: Serializer>(&self, serializer: S) -> Result<S::Ok, S::Error> {
        self.deref().serialize(serializer)
    }
}

#[cfg(feature = "serde")]
impl<'de, T> Deserialize<'de> for AHashSet<T>
where
    T: Deserialize<'de> + Eq + Hash,
{
    fn deserialize<D: Deserializer<'de>>(deserializer: D) -> Result<Self, D::Error> {
        let hash_set = HashSet::deserialize(deserializer);
        hash_set.map(|hash_set| Self(hash_set))
    }

    fn deserialize_in_place<D: Deserializer<'de>>(deserializer: D, place: &mut Self) -> Result<(), D::Error> {
        HashSet::deserialize_in_place(deserializer, place)
    }
}

#[cfg(all(test, feature = "serde"))]
mod test {
    use super::*;

    #[test]
    fn test_serde() {
        let mut set = AHashSet::new();
        set.insert("for".to_string());
        set.insert("bar".to_string());
        let mut serialization = serde_json::to_string(&set).unwrap();
        let mut deserialization: AHashSet<String> = serde_json::from_str(&serialization).unwrap();
        assert_eq!(deserialization, set);

        set.insert("baz".to_string());
        serialization = serde_json::to_string(&set).unwrap();
        let mut deserializer = serde_json::Deserializer::from_str(&serialization);
        AHashSet::deserialize_in_place(&mut deserializer, &mut deserialization).unwrap();
        assert_eq!(deserialization, set);
    }
}
