use core::hash::Hash;
cfg_if::cfg_if! {
    if #[cfg(any(
        all(any(target_arch = "x86", target_arch = "x86_64"), target_feature = "aes", not(miri)),
        all(feature = "nightly-arm-aes", target_arch = "aarch64", target_feature = "aes", not(miri)),
        all(feature = "nightly-arm-aes", target_arch = "arm", target_feature = "aes", not(miri)),
    ))] {
        use crate::aes_hash::*;
    } else {
        use crate::fallback_hash::*;
    }
}
cfg_if::cfg_if! {
    if #[cfg(feature = "std")] {
        extern crate std as alloc;
    } else {
        extern crate alloc;
    }
}

#[cfg(feature = "atomic-polyfill")]
use portable_atomic as atomic;
#[cfg(not(feature = "atomic-polyfill"))]
use core::sync::atomic;

use alloc::boxed::Box;
use atomic::{AtomicUsize, Ordering};
use core::any::{Any, TypeId};
use core::fmt;
use core::hash::BuildHasher;
use core::hash::Hasher;

pub(crate) const PI: [u64; 4] = [
    0x243f_6a88_85a3_08d3,
    0x1319_8a2e_0370_7344,
    0xa409_3822_299f_31d0,
    0x082e_fa98_ec4e_6c89,
];

pub(crate) const PI2: [u64; 4] = [
    0x4528_21e6_38d0_1377,
    0xbe54_66cf_34e9_0c6c,
    0xc0ac_29b7_c97c_50dd,
    0x3f84_d5b5_b547_0917,
];

cfg_if::cfg_if! {
    if #[cfg(all(feature = "compile-time-rng", any(test, fuzzing)))] {
        #[inline]
        fn get_fixed_seeds() -> &'static [[u64; 4]; 2] {
            use const_random::const_random;

            const RAND: [[u64; 4]; 2] = [
                [
                    const_random!(u64),
                    const_random!(u64),
                    const_random!(u64),
                    const_random!(u64),
                ], [
                    const_random!(u64),
                    const_random!(u64),
                    const_random!(u64),
                    const_random!(u64),
                ]
            ];
            &RAND
        }
    } else if #[cfg(all(feature = "runtime-rng", not(fuzzing)))] {
        #[inline]
        fn get_fixed_seeds() -> &'static [[u64; 4]; 2] {
            use crate::convert::Convert;

            static SEEDS: OnceBox<[[u64; 4]; 2]> = OnceBox::new();

            // VERIF SHIM (the only change to ahash 0.8.12): the process-wide keys are constants instead of OS
            // randomness, so that hash iteration orders - and with them the scheduling points of code that
            // iterates a map and locks per element - are the same in every process (replay files written by
            // one process reproduce in another).  Per-map seeds still come from the RandomSource.
            let _ = |r: [u8; 64]| -> [[u64; 4]; 2] { r.convert() };
            SEEDS.get_or_init(|| Box::new([PI, PI2]))
        }
    } else if #[cfg(feature = "compile-time-rng")] {
        #[inline]
        fn get_fixed_seeds() -> &'static [[u64; 4]; 2] {
            use const_random::const_random;

            const RAND: [[u64; 4]; 2] = [
                [
                    const_random!(u64),
                    const_random!(u64),
                    const_random!(u64),
                    const_random!(u64),
                ], [
                    const_random!(u64),
                    const_random!(u64),
                    const_random!(u64),
                    const_random!(u64),
                ]
            ];
            &RAND
        }
    } else {
        #[inline]
        fn get_fixed_seeds() -> &'static [[u64; 4]; 2] {
            &[PI, PI2]
        }
    }
}

cfg_if::cfg_if! {
    if #[cfg(not(all(target_arch = "arm", target_os = "none")))] {
        use once_cell::race::OnceBox;

        static RAND_SOURCE: OnceBox<Box<dyn RandomSource + Send + Sync>> = OnceBox::new();
    }
}
/// A supplier of Randomness used for different hashers.
/// See [set_random_source].
///
/// If [set_random_source] aHash will default to the best available source of randomness.
/// In order this is:
/// 1. OS provided random number generator (available if the `runtime-rng` flag is enabled which it is by default) - This should be very strong.
/// 2. Strong compile time random numbers used to permute a static "counter". (available if `compile-time-rng` is enabled.
/// __Enabling this is recommended if `runtime-rng` is not possible__)
/// 3. A static counter that adds the memory address of each [RandomState] created permuted with fixed constants.
/// (Similar to above but with fixed keys) - This is the weakest option. The strength of this heavily depends on whether or not ASLR is enabled.
/// (Rust enables ASLR by default)
pub trait RandomSource {
    fn gen_hasher_seed(&self) -> usize;
}

struct DefaultRandomSource {
    counter: AtomicUsize,
}

impl DefaultRandomSource {
    fn new() -> DefaultRandomSource {
        DefaultRandomSource {
            counter: AtomicUsize::new(&PI as *const _ as usize),
        }
    }

    #[cfg(all(target_arch = "arm", target_os = "none"))]
    const fn default() -> DefaultRandomSource {
        DefaultRandomSource {
            counter: AtomicUsize::new(PI[3] as usize),
        }
    }
}

impl RandomSource for DefaultRandomSource {
    cfg_if::cfg_if! {
        if #[cfg(all(target_arch = "arm", target_os = "none"))] {
            fn gen_hasher_seed(&self) -> usize {
                let stack = self as *const _ as usize;
                let previous = self.counter.load(Ordering::Relaxed);
                let new = previous.wrapping_add(stack);
                self.counter.store(new, Ordering::Relaxed);
                new
            }
        } else {
            fn gen_hasher_seed(&self) -> usize {
                let stack = self as *const _ as usize;
                self.counter.fetch_add(stack, Ordering::Relaxed)
            }
        }
    }
}

cfg_if::cfg_if! {
        if #[cfg(all(target_arch = "arm", target_os = "none"))] {
            #[inline]
            fn get_src() -> &'static dyn RandomSource {
                static RAND_SOURCE: DefaultRandomSource = DefaultRandomSource::default();
                &RAND_SOURCE
            }
        } else {
            /// Provides an optional way to manually supply a source of randomness for Hasher keys.
            ///
            /// The provided [RandomSource] will be used to be used as a source of randomness by [RandomState] to generate new states.
            /// If this method is not invoked the standard source of randomness is used as described in the Readme.
            ///
            /// The source of randomness can only be set once, and must be set before the first RandomState is created.
            /// If the source has already been specified `Err` is returned with a `bool` indicating if the set failed because
            /// method was previously invoked (true) or if the default source is already being used (false).
            #[cfg(not(all(target_arch = "arm", target_os = "none")))]
            pub fn set_random_source(source: impl RandomSource + Send + Sync + 'static) -> Result<(), bool> {
                RAND_SOURCE.set(Box::new(Box::new(source))).map_err(|s| s.as_ref().type_id() != TypeId::of::<&DefaultRandomSource>())
            }

            #[inline]
            fn get_src() -> &'static dyn RandomSource {
                RAND_SOURCE.get_or_init(|| Box::new(Box::new(DefaultRandomSource::new()))).as_ref()
            }
        }
}

/// Provides a [Hasher] factory. This is typically used (e.g. by [HashMap]) to create
/// [AHasher]s in order to hash the keys of the map. See `build_hasher` below.
///
/// [build_hasher]: ahash::
/// [Hasher]: std::hash::Hasher
/// [BuildHasher]: std::hash::BuildHasher
/// [HashMap]: std::collections::HashMap
///
/// There are multiple constructors each is documented in more detail below:
///
/// | Constructor   | Dynamically random? | Seed |
/// |---------------|---------------------|------|
/// |`new`          | Each instance unique|_[RandomSource]_|
/// |`generate_with`| Each instance unique|`u64` x 4 + [RandomSource]|
/// |`with_seed`    | Fixed per process   |`u64` + static random number|
/// |`with_seeds`   | Fixed               |`u64` x 4|
///
#[derive(Clone)]
pub struct RandomState {
    pub(crate) k0: u64,
    pub(crate) k1: u64,
    pub(crate) k2: u64,
    pub(crate) k3: u64,
}

impl fmt::Debug for RandomState {
    fn fmt(&self, f: &mut fmt::Formatter<'_>) -> fmt::Result {
        f.pad("RandomState { .. }")
    }
}

impl RandomState {
    /// Create a new `RandomState` `BuildHasher` using random keys.
    ///
    /// Each instance will have a unique set of keys derived from [RandomSource].
    ///
    #[inline]
    pub fn new() -> RandomState {
        let src = get_src();
        let fixed = get_fixed_seeds();
        Self::from_keys(&fixed[0], &fixed[1], src.gen_hasher_seed())
    }

    /// Create a new `RandomState` `BuildHasher` based on the provided seeds, but in such a way
    /// that each time it is called the resulting state will be different and of high quality.
    /// This allows fixed constant or poor quality seeds to be provided without the problem of different
    /// `BuildHasher`s being identical or weak.
    ///
    /// This is done via permuting the provided values with the value of a static counter and memory address.
    /// (This makes this method somewhat more expensive than `with_seeds` below which does not do this).
    ///
    /// The provided values (k0-k3) do not need to be of high quality but they should not all be the same value.
    #[inline]
    pub fn generate_with(k0: u64, k1: u64, k2: u64, k3: u64) -> RandomState {
        let src = get_src();
        let fixed = get_fixed_seeds();
        RandomState::from_keys(&fixed[0], &[k0, k1, k2, k3], src.gen_hasher_seed())
    }

    fn from_keys(a: &[u64; 4], b: &[u64; 4], c: usize) -> RandomState {
        let &[k0, k1, k2, k3] = a;
        let mut hasher = AHasher::from_random_state(&RandomState { k0, k1, k2, k3 });
        hasher.write_usize(c);
        let mix = |l: u64, r: u64| {
            let mut h = hasher.clone();
            h.write_u64(l);
            h.write_u64(r);
            h.finish()
        };
        RandomState {
            k0: mix(b[0], b[2]),
            k1: mix(b[1], b[3]),
            k2: mix(b[2], b[1]),
            k3: mix(b[3], b[0]),
        }
    }

    /// Internal. Used by Default.
    #[inline]
    pub(crate) fn with_fixed_keys() -> RandomState {
        let [k0, k1, k2, k3] = get_fixed_seeds()[0];
        RandomState { k0, k1, k2, k3 }
    }

    /// Build a `RandomState` from a single key. The provided key does not need to be of high quality,
    /// but all `RandomState`s created from the same key will produce identical hashers.
    /// (In contrast to `generate_with` above)
    ///
    /// This allows for explicitly setting the seed to be used.
    ///
    /// Note: This method does not require the provided seed to be strong.
    #[inline]
    pub fn with_seed(key: usize) -> RandomState {
        let fixed = get_fixed_seeds();
        RandomState::from_keys(&fixed[0], &fixed[1], key)
    }

    /// Allows for explicitly setting the seeds to used.
    /// All `RandomState`s created with the same set of keys key will produce identical hashers.
    /// (In contrast to `generate_with` above)
    ///
    /// Note: If DOS resistance is desired one of these should be a decent quality random number.
    /// If 4 high quality random number are not cheaply available this method is robust against 0s being passed for
    /// one or more of the parameters or the same value being passed for more than one parameter.
    /// It is recommended to pass numbers in order from highest to lowest quality (if there is any difference).
    #[inline]
    pub const fn with_seeds(k0: u64, k1: u64, k2: u64, k3: u64) -> RandomState {
        RandomState {
            k0: k0 ^ PI2[0],
            k1: k1 ^ PI2[1],
            k2: k2 ^ PI2[2],
            k3: k3 ^ PI2[3],
        }
    }

    /// Calculates the hash of a single value. This provides a more convenient (and faster) way to obtain a hash:
    /// For example:
    #[cfg_attr(
        feature = "std",
        doc = r##" # Examples
```
    use std::hash::BuildHasher;
    use ahash::RandomState;

    let hash_builder = RandomState::new();
    let hash = hash_builder.hash_one("Some Data");
```
    "##
    )]
    /// This is similar to:
    #[cfg_attr(
        feature = "std",
        doc = r##" # Examples
```
    use std::hash::{BuildHasher, Hash, Hasher};
    use ahash::RandomState;

    let hash_builder = RandomState::new();
    let mut hasher = hash_builder.build_hasher();
    "Some Data".hash(&mut hasher);
    let hash = hasher.finish();
```
    "##
    )]
    /// (Note that these two ways to get a hash may not produce the same value for the same data)
    ///
    /// This is intended as a convenience for code which *consumes* hashes, such
    /// as the implementation of a hash table or in unit tests that check
    /// whether a custom [`Hash`] implementation behaves as expected.
    ///
    /// This must not be used in any code which *creates* hashes, such as in an
    /// implementation of [`Hash`].  The way to create a combined hash of
    /// multiple values is to call [`Hash::hash`] multiple times using the same
    /// [`Hasher`], not to call this method repeatedly and combine the results.
    #[inline]
    pub fn hash_one<T: Hash>(&self, x: T) -> u64
    where
        Self: Sized,
    {
        use crate::specialize::CallHasher;
        T::get_hash(&x, self)
    }
}

/// Creates an instance of RandomState using keys obtained from the random number generator.
/// Each instance created in this way will have a unique set of keys. (But the resulting instance
/// can be used to create many hashers each or which will have the same keys.)
///
/// This is the same as [RandomState::new()]
///
/// NOTE: For safety this trait impl is only available available if either of the flags `runtime-rng` (on by default) or
/// `compile-time-rng` are enabled. This is to prevent weakly keyed maps from being accidentally created. Instead one of
/// constructors for [RandomState] must be used.
#[cfg(any(feature = "compile-time-rng", feature = "runtime-rng", feature = "no-rng"))]
impl Default for RandomState {
    #[inline]
    fn default() -> Self {
        Self::new()
    }
}

impl BuildHasher for RandomState {
    type Hasher = AHasher;

    /// Constructs a new [AHasher] with keys based on this [RandomState] object.
    /// This means that two different [RandomState]s will will generate
    /// [AHasher]s that will return different hashcodes, but [Hasher]s created from the same [BuildHasher]
    /// will generate the same hashes for the same input data.
    ///
    #[cfg_attr(
        feature = "std",
        doc = r##" # Examples
```
        use ahash::{AHasher, RandomState};
        use std::hash::{Hasher, BuildHasher};

        let build_hasher = RandomState::new();
        let mut hasher_1 = build_hasher.build_hasher();
        let mut hasher_2 = build_hasher.build_hasher();

        hasher_1.write_u32(1234);
        hasher_2.write_u32(1234);

        assert_eq!(hasher_1.finish(), hasher_2.finish());

        let other_build_hasher = RandomState::new();
        let mut different_hasher = other_build_hasher.build_hasher();
        different_hasher.write_u32(1234);
        assert_ne!(different_hasher.finish(), hasher_1.finish());
```
    "##
    )]
    /// [Hasher]: std::hash::Hasher
    /// [BuildHasher]: std::hash::BuildHasher
    /// [HashMap]: std::collections::HashMap
    #[inline]
    fn build_hasher(&self) -> AHasher {
        AHasher::from_random_state(self)
    }

    /// Calculates the hash of a single value. This provides a more convenient (and faster) way to obtain a hash:
    /// For example:
    #[cfg_attr(
        feature = "std",
        doc = r##" # Examples
```
    use std::hash::BuildHasher;
    use ahash::RandomState;

    let hash_builder = RandomState::new();
    let hash = hash_builder.hash_one("Some Data");
```
    "##
    )]
    /// This is similar to:
    #[cfg_attr(
        feature = "std",
        doc = r##" # Examples
```
    use std::hash::{BuildHasher, Hash, Hasher};
    use ahash::RandomState;

    let hash_builder = RandomState::new();
    let mut hasher = hash_builder.build_hasher();
    "Some Data".hash(&mut hasher);
    let hash = hasher.finish();
```
    "##
    )]
    /// (Note that these two ways to get a hash may not produce the same value for the same data)
    ///
    /// This is intended as a convenience for code which *consumes* hashes, such
    /// as the implementation of a hash table or in unit tests that check
    /// whether a custom [`Hash`] implementation behaves as expected.
    ///
    /// This must not be used in any code which *creates* hashes, such as in an
    /// implementation of [`Hash`].  The way to create a combined hash of
    /// multiple values is to call [`Hash::hash`] multiple times using the same
    /// [`Hasher`], not to call this method repeatedly and combine the results.
    #[cfg(specialize)]
    #[inline]
    fn hash_one<T: Hash>(&self, x: T) -> u64 {
        RandomState::hash_one(self, x)
    }
}

#[cfg(specialize)]
impl RandomState {
    #[inline]
    pub(crate) fn hash_as_u64<T: Hash + ?Sized>(&self, value: &T) -> u64 {
        let mut hasher = AHasherU64 {
            buffer: self.k1,
            pad: self.k0,
        };
        value.hash(&mut hasher);
        hasher.finish()
    }

    #[inline]
    pub(crate) fn hash_as_fixed_length<T: Hash + ?Sized>(&self, value: &T) -> u64 {
        let mut hasher = AHasherFixed(self.build_hasher());
        value.hash(&mut hasher);
        hasher.finish()
    }

    #[inline]
    pub(crate) fn hash_as_str<T: Hash + ?Sized>(&self, value: &T) -> u64 {
        let mut hasher = AHasherStr(self.build_hasher());
        value.hash(&mut hasher);
        hasher.finish()
    }
}

#[cfg(test)]
mod test {
    use super::*;

    #[test]
    fn test_unique() {
        let a = RandomState::generate_with(1, 2, 3, 4);
        let b = RandomState::generate_with(1, 2, 3, 4);
        assert_ne!(a.build_hasher().finish(), b.build_hasher().finish());
    }

    #[cfg(all(feature = "runtime-rng", not(all(feature = "compile-time-rng", test))))]
    #[test]
    fn test_not_pi() {
        assert_ne!(PI, get_fixed_seeds()[0]);
    }

    #[cfg(all(feature = "compile-time-rng", any(not(feature = "runtime-rng"), test)))]
    #[test]
    fn test_not_pi_const() {
        assert_ne!(PI, get_fixed_seeds()[0]);
    }

    #[cfg(all(not(feature = "runtime-rng"), not(feature = "compile-time-rng")))]
    #[test]
    fn test_pi() {
        assert_eq!(PI, get_fixed_seeds()[0]);
    }

    #[test]
    fn test_with_seeds_const() {
        const _CONST_RANDOM_STATE: RandomState = RandomState::with_seeds(17, 19, 21, 23);
    }
}
