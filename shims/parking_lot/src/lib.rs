//! parking_lot API subset backed by shuttle primitives.
//!
//! Every lock acquisition in the grafeo crates becomes a scheduling point of the
//! controlled scheduler (engine SCHED, DESIGN.md §2/E2).  Poisoning is ignored, as
//! parking_lot has none.  Only what grafeo-common/-core/-adapters/-engine (without
//! the `wal` feature) use is provided.
use std::ops::{Deref, DerefMut};

pub struct RwLock<T: ?Sized>(shuttle::sync::RwLock<T>);
pub struct RwLockReadGuard<'a, T: ?Sized>(shuttle::sync::RwLockReadGuard<'a, T>);
pub struct RwLockWriteGuard<'a, T: ?Sized>(shuttle::sync::RwLockWriteGuard<'a, T>);
pub struct MappedRwLockReadGuard<'a, U: ?Sized> {
    _g: Box<dyn Erased + 'a>,
    p: *const U,
}

impl<T> RwLock<T> {
    pub const fn new(v: T) -> Self {
        RwLock(shuttle::sync::RwLock::new(v))
    }
    pub fn into_inner(self) -> T {
        self.0.into_inner().unwrap_or_else(|e| e.into_inner())
    }
}
impl<T: ?Sized> RwLock<T> {
    pub fn read(&self) -> RwLockReadGuard<'_, T> {
        RwLockReadGuard(self.0.read().unwrap_or_else(|e| e.into_inner()))
    }
    pub fn write(&self) -> RwLockWriteGuard<'_, T> {
        RwLockWriteGuard(self.0.write().unwrap_or_else(|e| e.into_inner()))
    }
    pub fn try_read(&self) -> Option<RwLockReadGuard<'_, T>> {
        match self.0.try_read() {
            Ok(g) => Some(RwLockReadGuard(g)),
            Err(std::sync::TryLockError::Poisoned(e)) => Some(RwLockReadGuard(e.into_inner())),
            Err(std::sync::TryLockError::WouldBlock) => None,
        }
    }
    pub fn try_write(&self) -> Option<RwLockWriteGuard<'_, T>> {
        match self.0.try_write() {
            Ok(g) => Some(RwLockWriteGuard(g)),
            Err(std::sync::TryLockError::Poisoned(e)) => Some(RwLockWriteGuard(e.into_inner())),
            Err(std::sync::TryLockError::WouldBlock) => None,
        }
    }
    pub fn get_mut(&mut self) -> &mut T {
        self.0.get_mut().unwrap_or_else(|e| e.into_inner())
    }
}
impl<T: Default> Default for RwLock<T> {
    fn default() -> Self {
        Self::new(T::default())
    }
}
impl<T: ?Sized> std::fmt::Debug for RwLock<T> {
    fn fmt(&self, f: &mut std::fmt::Formatter<'_>) -> std::fmt::Result {
        f.write_str("RwLock{..}")
    }
}
impl<'a, T: ?Sized> Deref for RwLockReadGuard<'a, T> {
    type Target = T;
    fn deref(&self) -> &T {
        &self.0
    }
}
impl<'a, T: ?Sized> Deref for RwLockWriteGuard<'a, T> {
    type Target = T;
    fn deref(&self) -> &T {
        &self.0
    }
}
impl<'a, T: ?Sized> DerefMut for RwLockWriteGuard<'a, T> {
    fn deref_mut(&mut self) -> &mut T {
        &mut self.0
    }
}
impl<'a, T: ?Sized + 'a> RwLockReadGuard<'a, T> {
    pub fn map<U: ?Sized, F: FnOnce(&T) -> &U>(s: Self, f: F) -> MappedRwLockReadGuard<'a, U> {
        let p: *const U = f(&*s);
        // The pointer is derived from data protected by the guard we keep alive in `_g`.
        let g: Box<dyn Erased + 'a> = Box::new(Holder(s));
        MappedRwLockReadGuard { _g: g, p }
    }
}
pub trait Erased {}
struct Holder<'a, T: ?Sized>(#[allow(dead_code)] RwLockReadGuard<'a, T>);
impl<'a, T: ?Sized> Erased for Holder<'a, T> {}
impl<'a, U: ?Sized> Deref for MappedRwLockReadGuard<'a, U> {
    type Target = U;
    fn deref(&self) -> &U {
        unsafe { &*self.p }
    }
}

pub struct Mutex<T: ?Sized>(shuttle::sync::Mutex<T>);
pub struct MutexGuard<'a, T: ?Sized>(shuttle::sync::MutexGuard<'a, T>);
impl<T> Mutex<T> {
    pub const fn new(v: T) -> Self {
        Mutex(shuttle::sync::Mutex::new(v))
    }
    pub fn into_inner(self) -> T {
        self.0.into_inner().unwrap_or_else(|e| e.into_inner())
    }
}
impl<T: ?Sized> Mutex<T> {
    pub fn lock(&self) -> MutexGuard<'_, T> {
        MutexGuard(self.0.lock().unwrap_or_else(|e| e.into_inner()))
    }
    pub fn try_lock(&self) -> Option<MutexGuard<'_, T>> {
        match self.0.try_lock() {
            Ok(g) => Some(MutexGuard(g)),
            Err(std::sync::TryLockError::Poisoned(e)) => Some(MutexGuard(e.into_inner())),
            Err(std::sync::TryLockError::WouldBlock) => None,
        }
    }
    pub fn get_mut(&mut self) -> &mut T {
        self.0.get_mut().unwrap_or_else(|e| e.into_inner())
    }
}
impl<T: Default> Default for Mutex<T> {
    fn default() -> Self {
        Self::new(T::default())
    }
}
impl<T: ?Sized> std::fmt::Debug for Mutex<T> {
    fn fmt(&self, f: &mut std::fmt::Formatter<'_>) -> std::fmt::Result {
        f.write_str("Mutex{..}")
    }
}
impl<'a, T: ?Sized> Deref for MutexGuard<'a, T> {
    type Target = T;
    fn deref(&self) -> &T {
        &self.0
    }
}
impl<'a, T: ?Sized> DerefMut for MutexGuard<'a, T> {
    fn deref_mut(&mut self) -> &mut T {
        &mut self.0
    }
}
